"""C08 - consumer groups. Server mode: 1-5 TCP clients join/leave/disconnect, partitions are added/removed,
members poll without naming a partition (next + auto-commit). Model/Groups.v is given the member order the
implementation's hash map happened to use (derived from the listing); monitors: group_ok, rotation_ok, delivery_ok."""
import json, time
from vlib import coqrun, harness, util
from vlib.coqterm import C, show

ASSUMPTIONS = [
    "the iteration order of the member hash map is an oracle read back from each get_consumer_group listing; the theorems hold for every order",
    "polls are issued one at a time (orders of polls are covered; true simultaneity of a poll with a rebalance is runtime behaviour, not modelled)",
]
CL = ["c1", "c2", "c3", "c4", "c5"]


def gen_trace(rng, tid):
    pc = rng.choice([1, 2, 3, 4, 5, 7, 8])
    ops = [{"op": "create_stream", "name": "s", "id": 1},
           {"op": "create_topic", "stream": 1, "name": "t", "parts": pc, "id": 1},
           {"op": "create_group", "stream": 1, "topic": 1, "name": "g", "id": 1}]
    # a group of the same number elsewhere - in a second topic of the same stream, or in the same-numbered topic of a second
    # stream: memberships there must not interfere (and must end with the connection)
    if rng.random() < 0.5:
        ds, dt = 1, 2
        ops += [{"op": "create_topic", "stream": 1, "name": "t2", "parts": 2, "id": 2}, {"op": "create_group", "stream": 1, "topic": 2, "name": "g", "id": 1}]
    else:
        ds, dt = 2, 1
        ops += [{"op": "create_stream", "name": "s2", "id": 2}, {"op": "create_topic", "stream": 2, "name": "t", "parts": 2, "id": 1},
                {"op": "create_group", "stream": 2, "topic": 1, "name": "g", "id": 1}]
    nid = [1]
    connected, joined = set(), set()
    decoy = set()

    def decoy_join(c):
        if rng.random() < 0.5 and c not in decoy:
            ops.append({"op": "join_group", "c": c, "stream": ds, "topic": dt, "group": 1})
            decoy.add(c)

    def send_all(k):
        for p in range(1, cur_pc[0] + 1):
            ids = list(range(nid[0], nid[0] + k))
            nid[0] += k
            ops.append({"op": "send", "stream": 1, "topic": 1, "part": {"kind": "pid", "id": p}, "msgs": [{"id": i, "len": 5} for i in ids]})

    cur_pc = [pc]
    send_all(3)
    for _ in range(rng.randrange(8, 40)):
        x = rng.random()
        c = rng.choice(CL)
        if x < 0.22:
            if c not in connected:
                ops.append({"op": "login", "c": c, "user": "iggy", "password": "iggy"})
                ops.append({"op": "get_me", "c": c})
                connected.add(c)
            if rng.random() < 0.5:
                decoy_join(c)
            ops.append({"op": "join_group", "c": c, "stream": 1, "topic": 1, "group": 1})
            joined.add(c)
            ops.append({"op": "get_group", "stream": 1, "topic": 1, "group": 1})
            decoy_join(c)
        elif x < 0.30 and joined:
            c = rng.choice(sorted(joined))
            ops.append({"op": "leave_group", "c": c, "stream": 1, "topic": 1, "group": 1})
            joined.discard(c)
            ops.append({"op": "get_group", "stream": 1, "topic": 1, "group": 1})
        elif x < 0.36 and joined:
            c = rng.choice(sorted(joined))
            ops.append({"op": "disconnect", "c": c})
            joined.discard(c)
            connected.discard(c)
            decoy.discard(c)
            ops.append({"op": "get_group", "stream": 1, "topic": 1, "group": 1})
        elif x < 0.44:
            n = rng.choice([1, 1, 2, 3])
            ops.append({"op": "create_partitions", "stream": 1, "topic": 1, "n": n})
            cur_pc[0] += n
            ops.append({"op": "get_group", "stream": 1, "topic": 1, "group": 1})
        elif x < 0.50 and cur_pc[0] > 1:
            n = rng.choice([1, 1, 2])
            n = min(n, cur_pc[0] - 1)
            ops.append({"op": "delete_partitions", "stream": 1, "topic": 1, "n": n})
            cur_pc[0] -= n
            ops.append({"op": "get_group", "stream": 1, "topic": 1, "group": 1})
        elif x < 0.56:
            send_all(rng.choice([1, 2]))
        elif x < 0.61:
            # the server restarts: every connection is gone, the group and its stored offsets stay
            ops.append({"op": "restart"})
            connected.clear()
            joined.clear()
            decoy.clear()
            ops.append({"op": "get_group", "stream": 1, "topic": 1, "group": 1})
        elif joined:
            c = rng.choice(sorted(joined))
            # the group is addressed by number or by name; the offset is committed by the poll itself or by a store that follows it
            manual = rng.random() < 0.3
            ops.append({"op": "poll_store" if manual else "poll", "c": c, "stream": 1, "topic": 1, "kind": "next", "value": 0, "count": rng.choice([1, 2, 5]),
                        "consumer": {"kind": "group", "id": rng.choice([1, 1, "g"])}, "auto_commit": True})
    ops.append({"op": "get_group", "stream": 1, "topic": 1, "group": 1})
    ops.append({"op": "get_group", "stream": ds, "topic": dt, "group": 1})       # must stay the last operation (see run)
    return {"id": tid, "cfg": {"req": 1000, "seg_size": 1000000, "cache": False}, "ops": ops, "pc": pc, "decoy": sorted(decoy)}


def order_from(listing):
    """member iteration order reconstructed from an assignment listing: the member holding partition 1 was visited
    first, the one holding partition 2 second, ...; members without partitions last (their order is unobservable)."""
    with_parts = sorted([m for m in listing if m["parts"]], key=lambda m: min(m["parts"]))
    without = sorted([m for m in listing if not m["parts"]], key=lambda m: m["id"])
    return [m["id"] for m in with_parts + without]


def analyse(t, ob):
    """Builds the model op list, expected-vs-observed pairs and monitor inputs from one trace's observations."""
    cid = {}
    gops, checks = [], []   # checks: (kind, model position, observed)
    listings, polls, visits = [], [], {}
    pending = None          # (kind, client id) waiting for the listing that follows
    pc = t["pc"]
    members = []
    last_listing = []
    epoch = {}
    for i, (op, o) in enumerate(zip(t["ops"], ob["outs"])):
        k = op["op"]
        if o.get("r") != "ok" and k not in ("poll", "poll_store"):
            if k in ("leave_group", "join_group", "get_group", "create_partitions", "delete_partitions", "login", "get_me"):
                return None, "op %d %s failed: %s" % (i, k, json.dumps(o))
        if k == "get_me":
            cid[op["c"]] = o["client_id"]
        elif k in ("join_group", "get_group") and (op["stream"], op["topic"]) != (1, 1):
            pass                      # the same-numbered group elsewhere (second topic / second stream): judged at the end
        elif k == "join_group":
            pending = ("join", cid[op["c"]])
        elif k == "leave_group":
            pending = ("leave", cid[op["c"]])
        elif k == "disconnect":
            pending = ("leave", cid.get(op["c"], 0))
        elif k == "restart":
            if o.get("r") != "ok":
                return None, "restart failed: %s" % json.dumps(o)
            if last_listing:
                pending = ("leave_all", last_listing[0]["id"])
        elif k == "create_partitions":
            pc += op["n"]
            pending = ("re", pc)
        elif k == "delete_partitions":
            # the deleted partitions are gone with their messages and stored offsets: a partition created later under the same
            # number is a different one (delivery starts over there)
            for gone in range(pc - op["n"] + 1, pc + 1):
                epoch[gone] = epoch.get(gone, 0) + 1
            pc -= op["n"]
            pending = ("re", pc)
        elif k == "get_group":
            listing = o["members"]
            order = order_from(listing)
            listings.append((o["parts"], pc, [(m["id"], sorted(m["parts"])) for m in listing], o["members_count"]))
            if pending:
                if pending[0] == "join":
                    gops.append(C("GJoin", pending[1], order))
                elif pending[0] == "leave":
                    gops.append(C("GLeave", pending[1], order))
                elif pending[0] == "leave_all":
                    gops.append(C("GLeave", pending[1], []))
                else:
                    gops.append(C("GReassign", pending[1], order))
                pending = None
                visits = {}
            last_listing = listing
        elif k in ("poll", "poll_store"):
            if k == "poll_store" and o.get("r") == "ok" and o.get("msgs") and o.get("store") != "ok":
                return None, "storing the group's offset after a poll failed at op %d: %s" % (i, json.dumps(o.get("store")))
            if o.get("r") != "ok":
                return None, "poll failed at op %d: %s" % (i, json.dumps(o))
            c = cid[op["c"]]
            gops.append(C("GCalc", c))
            checks.append((len(gops) - 1, 1 if o["pid"] == 0 else o["pid"] + 2))
            if o["pid"] != 0:
                polls.append((o["pid"] + 1000 * epoch.get(o["pid"], 0), [m["o"] for m in o["msgs"]]))
                share = sorted(next((m["parts"] for m in last_listing if m["id"] == c), []))
                visits.setdefault(c, (share, []))[1].append(o["pid"])
                checks[-1] = checks[-1] + ((c, share, list(visits[c][1])),)
    return {"gops": gops, "checks": checks, "listings": listings, "polls": polls, "final": last_listing}, None


def run(out, tier, seed, gate):
    t0 = time.time()
    rng = util.Rng(seed * 7919 + 8)
    n = 60 if tier == "quick" else 800
    traces = [gen_trace(rng, "C08-g%d" % i) for i in range(n)]
    impl = harness.run_traces("srv", traces, shards=8)
    terms, idx, infos = [], [], []
    nontrivial, flags = set(), {}
    for t in traces:
        ob = impl[t["id"]]
        if "crash" in ob or "init_err" in ob:
            out.violation("crash-%s" % t["id"], {"kind": "impl-crash", "mode": "srv", "trace": t, "detail": str(ob)[-1500:]})
            continue
        info, err = analyse(t, ob)
        if not err:
            # the group of the second topic: exactly the connected clients that joined it, the two partitions split among them
            d = ob["outs"][-1]
            got = sorted(p for m in d.get("members", []) for p in m["parts"])
            if d.get("r") != "ok" or d["members_count"] != len(t["decoy"]) or (t["decoy"] and got != [1, 2]) or (not t["decoy"] and got):
                out.violation("other-topic-%s" % t["id"], {"kind": "spec-monitor", "mode": "srv", "trace": {k: v for k, v in t.items() if k in ("id", "cfg", "ops")}, "listing": d, "expected_members": len(t["decoy"]),
                                                          "what": "the group of the same number in another topic / in the same-numbered topic of another stream does not list exactly its connected members with the partitions split among them"})
                continue
        if err:
            out.violation("fail-%s" % t["id"], {"kind": "spec-monitor", "mode": "srv", "trace": t, "what": "a valid consumer-group command failed", "detail": err})
            continue
        lst = [(pcv, [(i, p) for i, p in ms]) for (_, pcv, ms, _) in info["listings"]]
        rot = [(share, vis) for chk in info["checks"] if len(chk) > 2 for (_, share, vis) in [chk[2]]]
        term = "(grun_obs %d %s, map (fun x => group_ok (fst x) (snd x)) %s, delivery_ok [] %s, map (fun x => rotation_ok (fst x) (snd x)) %s)" % (
            t["pc"], show(info["gops"]), show(lst), show([(p, offs) for p, offs in info["polls"]]), show(rot))
        terms.append(term)
        idx.append(t)
        infos.append(info)
        fl = set()
        if any(len(ms) > 1 for (_, _, ms, _) in info["listings"]):
            fl.add("several_members")
        if any(len(ms) > pcv for (_, pcv, ms, _) in info["listings"]):
            fl.add("more_members_than_partitions")
        if any(o["op"] in ("create_partitions", "delete_partitions") for o in t["ops"]):
            fl.add("partition_change")
        if any(o["op"] == "disconnect" for o in t["ops"]):
            fl.add("disconnect")
        if len(info["polls"]) > 3:
            fl.add("polls")
        for f in fl:
            flags[f] = flags.get(f, 0) + 1
        if fl:
            nontrivial.add(util.digest(t["ops"]))
    vals = coqrun.eval_terms("C08", "Base.Tactics Base.ListX Model.Groups", terms, shard_size=10)
    disagreements = 0
    for t, info, v in zip(idx, infos, vals):
        m_pc, m_members, m_res, oks, deliv, rots = v  # left-nested pairs print flat
        # spec monitors on the implementation's observations
        bad = None
        for j, (ok, (gparts, pcv, ms, mcount)) in enumerate(zip(oks, info["listings"])):
            if not ok or gparts != pcv or mcount != len(ms):
                bad = "listing %d violates exclusivity/balance or does not track the partition count: topic partitions %d, group says %d, members %s" % (j, pcv, gparts, ms)
                break
        if bad is None and not deliv:
            bad = "group-wide delivery: some partition's messages were handed out twice, out of order or with a gap: %s" % info["polls"]
        if bad is None and not all(rots):
            bad = "a member's partition-less polls do not visit its share in rotation"
        if bad:
            out.violation("mon-%s" % t["id"], {"kind": "spec-monitor", "mode": "srv", "trace": t, "what": bad})
            continue
        # correspondence with the model
        final = sorted([(m["id"], sorted(m["parts"])) for m in info["final"]])
        model_final = sorted([(i, sorted(p)) for i, p in m_members])
        diff = None
        if final != model_final:
            diff = ("final listing", final, model_final)
        for chk in info["checks"]:
            pos, want = chk[0], chk[1]
            if m_res[pos] != want:
                diff = ("poll result at model op %d" % pos, want, m_res[pos])
                break
        if diff:
            disagreements += 1
            out.violation("corr-%s" % t["id"], {"kind": "correspondence", "no_longer_checks": "corr_C08_groups (Model/Groups.v vs ConsumerGroup)", "mode": "srv",
                                                "trace": t, "difference": diff}, no_failing_input=True)
    return {"traces_validated_against_impl": len(idx), "evaluations": len(idx), "distinct_nontrivial": len(nontrivial),
            "rule": "seeded histories of join/leave/disconnect by up to 5 TCP clients, partition additions/removals and partition-less next+auto-commit polls; non-trivial = reaches a shape flag",
            "shape_flags": flags, "model_impl_disagreements": disagreements, "samples": [traces[0]["ops"][3:12]],
            "corr_wall_s": round(time.time() - t0, 2)}


def replay(payload):
    t = payload["trace"]
    impl = harness.run_traces("srv", [t], shards=1)
    print(json.dumps(impl[t["id"]])[:4000])
    return 0
