"""C17 - partition selection. Correspondence: real Topic (harness mode `route`) vs Model/Routing.v;
monitor: Routing.rmon_check evaluated in Coq on the implementation's observations."""
import json, time
from vlib import coqrun, harness, util
from vlib.coqterm import C, Raw, show

ASSUMPTIONS = [
    "xxHash32 of the key is an oracle value read back from the implementation (calculate_32) and given to the model",
    "topic driven directly (Topic::append_messages / add_persisted_partitions / delete_persisted_partitions), no concurrent sender",
]


def gen_trace(rng, tid, big=False):
    parts = rng.choice([0, 1, 1, 2, 3, 3, 4, 5, 7, 8, 16]) if not big else rng.choice([31, 64, 100])
    ops = []
    next_id = [1]
    keys = [[rng.randrange(256) for _ in range(rng.choice([1, 2, 4, 8, 16, 255]))] for _ in range(4)]

    def ids(n):
        r = list(range(next_id[0], next_id[0] + n))
        next_id[0] += n
        return r

    cur_parts = parts
    for _ in range(rng.randrange(4, 28)):
        x = rng.random()
        n = rng.choice([0, 1, 1, 1, 2, 3])
        if x < 0.45:
            ops.append({"op": "send", "kind": "balanced", "ids": ids(n)})
        elif x < 0.62:
            ops.append({"op": "send", "kind": "key", "key": rng.choice(keys), "ids": ids(n)})
        elif x < 0.80:
            pid = rng.choice([0, 1, 1, cur_parts, cur_parts, cur_parts + 1, rng.randrange(0, 12), 4294967295])
            ops.append({"op": "send", "kind": "pid", "id": pid, "ids": ids(n)})
        elif x < 0.90:
            k = rng.choice([0, 1, 1, 2, 3])
            ops.append({"op": "add", "n": k})
            cur_parts += k
        else:
            k = rng.choice([0, 1, 1, 2, cur_parts, cur_parts + 3])
            ops.append({"op": "del", "n": k})
            cur_parts = max(0, cur_parts - k)
    return {"id": tid, "parts": parts, "ops": ops}


def corpus():
    """Regression traces that always run first (hand-minimised shapes)."""
    mk = lambda i, parts, ops: {"id": "corpus%d" % i, "parts": parts, "ops": ops}
    b = lambda ids: {"op": "send", "kind": "balanced", "ids": ids}
    return [
        mk(0, 3, [b([1]), b([2]), b([3]), b([4]), {"op": "del", "n": 2}, b([5]), b([6]), {"op": "add", "n": 2}, b([7]), b([8]), b([9]), b([10])]),
        mk(1, 1, [b([1]), b([2]), {"op": "send", "kind": "pid", "id": 2, "ids": [3]}, {"op": "send", "kind": "pid", "id": 0, "ids": [4]}]),
        mk(2, 2, [{"op": "del", "n": 5}, b([1]), {"op": "add", "n": 3}, b([2]), b([3]), b([4]), b([5])]),
        mk(3, 4, [{"op": "send", "kind": "key", "key": [7], "ids": [1]}, {"op": "send", "kind": "key", "key": [7], "ids": [2]},
                  {"op": "add", "n": 1}, {"op": "send", "kind": "key", "key": [7], "ids": [3]}, {"op": "del", "n": 1},
                  {"op": "send", "kind": "key", "key": [7], "ids": [4]}]),
    ]


def op_term(op, h):
    if op["op"] == "send":
        k = {"balanced": C("Balanced"), "pid": C("PartId", op.get("id", 0)), "key": C("Key", h)}[op["kind"]]
        return C("Send", k, list(op["ids"]))
    return C("AddParts" if op["op"] == "add" else "DelParts", op["n"])


def shape(t, obs):
    """Interesting-shape flags of a trace (for the distinct_nontrivial count and the histogram)."""
    flags = set()
    kinds = [o.get("kind", o["op"]) for o in t["ops"]]
    seen_change = False
    for o, ob in zip(t["ops"], obs.get("outs", [])):
        if o["op"] in ("add", "del") and o["n"] > 0:
            seen_change = True
        if o["op"] == "send" and o["kind"] == "balanced" and seen_change and o["ids"]:
            flags.add("balanced_after_partition_change")
        if ob.get("c") == 3:
            flags.add("named_missing_partition")
        if o["op"] == "send" and not o["ids"]:
            flags.add("empty_batch")
        if ob.get("c") == 2:
            flags.add("no_partitions")
        if o["op"] == "send" and o["kind"] == "key" and o["ids"]:
            flags.add("key")
    if kinds.count("balanced") > t["parts"] >= 1:
        flags.add("balanced_wraps")
    return flags


def run(out, tier, seed, gate):
    t0 = time.time()
    rng = util.Rng(seed)
    n = 300 if tier == "quick" else 4000
    traces = corpus() + [gen_trace(rng, "g%d" % i, big=(i % 40 == 39)) for i in range(n)]
    impl = harness.run_traces("route", traces)
    terms, index = [], []
    hist, flagc, nontrivial = {}, {}, set()
    for t in traces:
        ob = impl[t["id"]]
        if "crash" in ob:
            out.violation("crash-" + str(t["id"]), {"kind": "impl-crash", "trace": t, "stderr": ob["crash"], "mode": "route"})
            continue
        ops = [op_term(o, x.get("h", 0)) for o, x in zip(t["ops"], ob["outs"])]
        robs = [(x["c"], x["a"], list(x.get("changed", []))) for x in ob["outs"]]
        model = "rrun_obs %d %s" % (t["parts"], show(ops))
        mon = "rmon_check %d %s %s" % (t["parts"], show([(o, r) for o, r in zip(ops, robs)]), show([list(p) for p in ob["parts"]]))
        terms.append("(%s, %s)" % (model, mon))
        index.append(t)
        for o in t["ops"]:
            k = o.get("kind", o["op"])
            hist[k] = hist.get(k, 0) + 1
        fl = shape(t, ob)
        for f in fl:
            flagc[f] = flagc.get(f, 0) + 1
        if fl:
            nontrivial.add(util.digest(t["ops"]))
    vals = coqrun.eval_terms("C17", "Base.Tactics Base.ListX Model.Routing", terms)
    disagreements = 0
    for t, v in zip(index, vals):
        m_outs, m_parts, mon = v  # Coq prints ((a, b), c) as (a, b, c)
        ob = impl[t["id"]]
        i_outs = [(x["c"], x["a"]) for x in ob["outs"]]
        i_parts = [list(p) for p in ob["parts"]]
        m_outs = [tuple(x) for x in m_outs]
        if mon != 0:
            out.violation("mon-" + str(t["id"]), {"kind": "spec-monitor", "mode": "route", "trace": t, "impl": ob,
                                                   "monitor_result": mon,
                                                   "meaning": "operation index monitor_result-1 violates the C17 specification (1000000 = final partition contents differ)"})
        elif m_outs != i_outs or m_parts != i_parts:
            disagreements += 1
            out.violation("corr-" + str(t["id"]), {"kind": "correspondence", "no_longer_checks": "corr_C17_route (Model/Routing.v rstep vs Topic::append_messages)",
                                                   "mode": "route", "trace": t, "impl": ob, "model": {"outs": m_outs, "parts": m_parts}},
                          no_failing_input=True)
    return {
        "traces_validated_against_impl": len(index), "evaluations": len(index), "distinct_nontrivial": len(nontrivial),
        "rule": "seeded random histories of send(balanced|key|partition id)/add/delete partitions on a real Topic; non-trivial = reaches at least one shape flag; distinct by hash of the op list",
        "op_histogram": hist, "shape_flags": flagc, "model_impl_disagreements": disagreements,
        "samples": [traces[0], traces[len(corpus())]], "corr_wall_s": round(time.time() - t0, 2),
    }


def replay(payload):
    t = payload["trace"]
    impl = harness.run_traces(payload.get("mode", "route"), [t], shards=1)
    print(json.dumps(impl[t["id"]], indent=1))
    return 0
