"""C17 - partition selection. Correspondence: real Topic (harness mode `route`) vs Model/Routing.v;
monitor: Routing.rmon_check evaluated in Coq on the implementation's observations."""
import json, time
from vlib import coqrun, harness, util
from vlib.coqterm import C, Raw, show

ASSUMPTIONS = [
    "xxHash32 of the key is an oracle value read back from the implementation (calculate_32) and given to the model",
    "topic driven directly (Topic::append_messages / add_persisted_partitions / delete_persisted_partitions), no concurrent sender",
]


def gen_trace(rng, tid, big=False):
    parts = rng.choice([0, 1, 1, 2, 3, 3, 4, 5, 7, 8, 16]) if not big else rng.choice([31, 64, 100])
    ops = []
    next_id = [1]
    keys = [[rng.randrange(256) for _ in range(rng.choice([1, 2, 4, 8, 16, 255]))] for _ in range(4)]

    def ids(n):
        r = list(range(next_id[0], next_id[0] + n))
        next_id[0] += n
        return r

    cur_parts = parts
    for _ in range(rng.randrange(4, 28)):
        x = rng.random()
        n = rng.choice([0, 1, 1, 1, 2, 3])
        if x < 0.45:
            ops.append({"op": "send", "kind": "balanced", "ids": ids(n)})
        elif x < 0.62:
            ops.append({"op": "send", "kind": "key", "key": rng.choice(keys), "ids": ids(n)})
        elif x < 0.80:
            pid = rng.choice([0, 1, 1, cur_parts, cur_parts, cur_parts + 1, rng.randrange(0, 12), 4294967295])
            ops.append({"op": "send", "kind": "pid", "id": pid, "ids": ids(n)})
        elif x < 0.90:
            k = rng.choice([0, 1, 1, 2, 3])
            ops.append({"op": "add", "n": k})
            cur_parts += k
        else:
            k = rng.choice([0, 1, 1, 2, cur_parts, cur_parts + 3])
            ops.append({"op": "del", "n": k})
            cur_parts = max(0, cur_parts - k)
    return {"id": tid, "parts": parts, "ops": ops}


def corpus():
    """Regression traces that always run first (hand-minimised shapes)."""
    mk = lambda i, parts, ops: {"id": "corpus%d" % i, "parts": parts, "ops": ops}
    b = lambda ids: {"op": "send", "kind": "balanced", "ids": ids}
    return [
        mk(0, 3, [b([1]), b([2]), b([3]), b([4]), {"op": "del", "n": 2}, b([5]), b([6]), {"op": "add", "n": 2}, b([7]), b([8]), b([9]), b([10])]),
        mk(1, 1, [b([1]), b([2]), {"op": "send", "kind": "pid", "id": 2, "ids": [3]}, {"op": "send", "kind": "pid", "id": 0, "ids": [4]}]),
        mk(2, 2, [{"op": "del", "n": 5}, b([1]), {"op": "add", "n": 3}, b([2]), b([3]), b([4]), b([5])]),
        mk(3, 4, [{"op": "send", "kind": "key", "key": [7], "ids": [1]}, {"op": "send", "kind": "key", "key": [7], "ids": [2]},
                  {"op": "add", "n": 1}, {"op": "send", "kind": "key", "key": [7], "ids": [3]}, {"op": "del", "n": 1},
                  {"op": "send", "kind": "key", "key": [7], "ids": [4]}]),
    ]


def op_term(op, h):
    if op["op"] == "send":
        k = {"balanced": C("Balanced"), "pid": C("PartId", op.get("id", 0)), "key": C("Key", h)}[op["kind"]]
        return C("Send", k, list(op["ids"]))
    return C("AddParts" if op["op"] == "add" else "DelParts", op["n"])


def shape(t, obs):
    """Interesting-shape flags of a trace (for the distinct_nontrivial count and the histogram)."""
    flags = set()
    kinds = [o.get("kind", o["op"]) for o in t["ops"]]
    seen_change = False
    for o, ob in zip(t["ops"], obs.get("outs", [])):
        if o["op"] in ("add", "del") and o["n"] > 0:
            seen_change = True
        if o["op"] == "send" and o["kind"] == "balanced" and seen_change and o["ids"]:
            flags.add("balanced_after_partition_change")
        if ob.get("c") == 3:
            flags.add("named_missing_partition")
        if o["op"] == "send" and not o["ids"]:
            flags.add("empty_batch")
        if ob.get("c") == 2:
            flags.add("no_partitions")
        if o["op"] == "send" and o["kind"] == "key" and o["ids"]:
            flags.add("key")
    if kinds.count("balanced") > t["parts"] >= 1:
        flags.add("balanced_wraps")
    return flags


def run(out, tier, seed, gate):
    t0 = time.time()
    rng = util.Rng(seed)
    n = 300 if tier == "quick" else 4000
    traces = corpus() + [gen_trace(rng, "g%d" % i, big=(i % 40 == 39)) for i in range(n)]
    impl = harness.run_traces("route", traces)
    terms, index = [], []
    hist, flagc, nontrivial = {}, {}, set()
    for t in traces:
        ob = impl[t["id"]]
        if "crash" in ob:
            out.violation("crash-" + str(t["id"]), {"kind": "impl-crash", "trace": t, "stderr": ob["crash"], "mode": "route"})
            continue
        ops = [op_term(o, x.get("h", 0)) for o, x in zip(t["ops"], ob["outs"])]
        robs = [(x["c"], x["a"], list(x.get("changed", []))) for x in ob["outs"]]
        model = "rrun_obs %d %s" % (t["parts"], show(ops))
        mon = "rmon_check %d %s %s" % (t["parts"], show([(o, r) for o, r in zip(ops, robs)]), show([list(p) for p in ob["parts"]]))
        terms.append("(%s, %s)" % (model, mon))
        index.append(t)
        for o in t["ops"]:
            k = o.get("kind", o["op"])
            hist[k] = hist.get(k, 0) + 1
        fl = shape(t, ob)
        for f in fl:
            flagc[f] = flagc.get(f, 0) + 1
        if fl:
            nontrivial.add(util.digest(t["ops"]))
    vals = coqrun.eval_terms("C17", "Base.Tactics Base.ListX Model.Routing", terms)
    disagreements = 0
    for t, v in zip(index, vals):
        m_outs, m_parts, mon = v  # Coq prints ((a, b), c) as (a, b, c)
        ob = impl[t["id"]]
        i_outs = [(x["c"], x["a"]) for x in ob["outs"]]
        i_parts = [list(p) for p in ob["parts"]]
        m_outs = [tuple(x) for x in m_outs]
        if mon != 0:
            out.violation("mon-" + str(t["id"]), {"kind": "spec-monitor", "mode": "route", "trace": t, "impl": ob,
                                                   "monitor_result": mon,
                                                   "meaning": "operation index monitor_result-1 violates the C17 specification (1000000 = final partition contents differ)"})
        elif m_outs != i_outs or m_parts != i_parts:
            disagreements += 1
            out.violation("corr-" + str(t["id"]), {"kind": "correspondence", "no_longer_checks": "corr_C17_route (Model/Routing.v rstep vs Topic::append_messages)",
                                                   "mode": "route", "trace": t, "impl": ob, "model": {"outs": m_outs, "parts": m_parts}},
                          no_failing_input=True)
    srv_cov = run_server(out, tier, seed)
    return {
        **srv_cov,
        "traces_validated_against_impl": len(index), "evaluations": len(index), "distinct_nontrivial": len(nontrivial),
        "rule": "seeded random histories of send(balanced|key|partition id)/add/delete partitions on a real Topic; non-trivial = reaches at least one shape flag; distinct by hash of the op list",
        "op_histogram": hist, "shape_flags": flagc, "model_impl_disagreements": disagreements,
        "samples": [traces[0], traces[len(corpus())]], "corr_wall_s": round(time.time() - t0, 2),
    }


# ----------------------------------------------------------------------------- the same specification on the whole server
SRV_ERR = {"topic_full": 6, "no_partitions": 2, "partition_not_found": 3, "resource_not_found": 3}


def gen_srv_trace(rng, tid):
    """sends of all three kinds through the real server interleaved with partition additions / removals, restarts, purges and - on a
    size-limited topic - refusals because the topic is full; the topic is looked at after every step"""
    parts = rng.choice([1, 2, 3, 3, 4, 5])
    limited = rng.random() < 0.5
    cfg = {"req": rng.choice([1, 3]), "seg_size": 1000, "cache": False, "delete_oldest": False}
    top = {"op": "create_topic", "stream": 1, "name": "rt", "parts": parts, "id": 1}
    if limited:
        top["max_size"] = rng.choice([2000, 3000])
    ops = [{"op": "create_stream", "name": "rs", "id": 1}, top]
    look = {"op": "get_topic", "stream": 1, "topic": 1}
    steps = []      # (rop-description, index of the op, index of the look after it)
    keys = [[rng.randrange(256) for _ in range(rng.choice([1, 2, 8, 255]))] for _ in range(3)]
    mid = [0]
    cur = parts

    def ids(n):
        r = list(range(mid[0] + 1, mid[0] + n + 1))
        mid[0] += n
        return r

    ops.append(dict(look))
    for _ in range(rng.randrange(10, 34)):
        x = rng.random()
        if x < 0.5:
            d = {"kind": "balanced"}
        elif x < 0.62:
            d = {"kind": "key", "key": rng.randrange(len(keys))}
        elif x < 0.74:
            d = {"kind": "pid", "id": rng.choice([1, cur, cur, cur + 1, rng.randrange(1, 8)])}
        elif x < 0.80:
            d = {"kind": "add", "n": rng.choice([1, 1, 2])}
        elif x < 0.86:
            d = {"kind": "del", "n": rng.randrange(1, cur + 1)} if cur > 0 else {"kind": "add", "n": 1}
        elif x < 0.93:
            d = {"kind": "restart"}
        else:
            d = {"kind": "purge"}
        if d["kind"] in ("balanced", "key", "pid"):
            d["ids"] = ids(rng.choice([1, 1, 2, 3]))
            part = {"balanced": {"kind": "balanced"}, "key": {"kind": "key", "key": keys[d.get("key", 0)]}, "pid": {"kind": "pid", "id": d.get("id", 0)}}[d["kind"]]
            op = {"op": "send", "stream": 1, "topic": 1, "part": part, "msgs": [{"id": i, "len": rng.choice([60, 150])} for i in d["ids"]]}
            if rng.random() < 0.25:
                op["c"] = "httproot"         # the HTTP API has a send handler of its own
            ops.append(op)
        elif d["kind"] == "add":
            ops.append({"op": "create_partitions", "stream": 1, "topic": 1, "n": d["n"]})
            cur += d["n"]
        elif d["kind"] == "del":
            ops.append({"op": "delete_partitions", "stream": 1, "topic": 1, "n": d["n"]})
            cur -= d["n"]
        elif d["kind"] == "restart":
            ops.append({"op": "restart"})
        else:
            ops.append({"op": "purge_topic", "stream": 1, "topic": 1})
        ops.append(dict(look))
        steps.append((d, len(ops) - 2, len(ops) - 1))
    if limited and cur > 0:
        # fill the topic until sends are refused, free it again, go on: the refused sends must not have moved the rotation
        for _ in range(rng.randrange(18, 24)):
            d = {"kind": "balanced", "ids": ids(1)}
            ops.append({"op": "send", "stream": 1, "topic": 1, "part": {"kind": "balanced"}, "msgs": [{"id": d["ids"][0], "len": 150}]})
            ops.append(dict(look))
            steps.append((d, len(ops) - 2, len(ops) - 1))
        ops.append({"op": "purge_topic", "stream": 1, "topic": 1})
        ops.append(dict(look))
        steps.append(({"kind": "purge"}, len(ops) - 2, len(ops) - 1))
        for _ in range(cur + 1):
            d = {"kind": "balanced", "ids": ids(1)}
            ops.append({"op": "send", "stream": 1, "topic": 1, "part": {"kind": "balanced"}, "msgs": [{"id": d["ids"][0], "len": 60}]})
            ops.append(dict(look))
            steps.append((d, len(ops) - 2, len(ops) - 1))
    polls_at = len(ops)
    for p in range(1, cur + 1):
        ops.append({"op": "poll", "stream": 1, "topic": 1, "partition": p, "kind": "offset", "value": 0, "count": 100000})
    return {"id": tid, "cfg": cfg, "ops": ops, "marks": {"steps": steps, "parts": parts, "polls_at": polls_at, "final_parts": cur}}


def run_server(out, tier, seed):
    rng = util.Rng(seed * 17017 + 17)
    n = 24 if tier == "quick" else 300
    traces = [gen_srv_trace(rng, "C17-s%d" % i) for i in range(n)]
    impl = harness.run_traces("srv", [{k: v for k, v in t.items() if k != "marks"} for t in traces], shards=min(8, n))
    terms, index = [], []
    hist = {}
    for t in traces:
        ob = impl[t["id"]]
        slim = {k: v for k, v in t.items() if k != "marks"}
        if "crash" in ob or "init_err" in ob:
            out.violation("srv-crash-%s" % t["id"], {"kind": "impl-crash", "mode": "srv", "trace": slim, "detail": str(ob)[-1200:]})
            continue
        outs = ob["outs"]
        mk = t["marks"]

        def counts(o):
            return {p["id"]: (p["msgs"], p["cur"]) for p in o.get("parts", [])} if o.get("r") == "ok" else None

        prev = counts(outs[2])
        pairs, broken = [], None
        for d, i, j in mk["steps"]:
            if j >= len(outs):
                break
            o, after = outs[i], counts(outs[j])
            if after is None or prev is None:
                broken = (j, "the topic cannot be looked at", outs[j])
                break
            k = d["kind"]
            hist[k] = hist.get(k, 0) + 1
            if k in ("balanced", "key", "pid"):
                changed = sorted(p for p in after if p in prev and after[p] != prev[p])
                rop = C("Send", {"balanced": C("Balanced"), "pid": C("PartId", d.get("id", 0)), "key": C("Key", d.get("key", 0))}[k], list(d["ids"]))
                if o.get("r") == "ok":
                    code, arg = (0, changed[0]) if len(changed) == 1 else (9, len(changed))
                else:
                    code, arg = SRV_ERR.get(o.get("name"), 99), 0
                    hist["refused:" + str(o.get("name"))] = hist.get("refused:" + str(o.get("name")), 0) + 1
                    if code == 6:
                        # refused because the topic is full: the model's operation for it (no partition is chosen, the rotation stays)
                        rop = C("SendFull", rop.args[0], rop.args[1])
                pairs.append((rop, (code, arg, changed)))
            elif k == "add":
                pairs.append((C("AddParts", d["n"]), (5 if o.get("r") == "ok" else 4, 0, [])))
            elif k == "del":
                pairs.append((C("DelParts", d["n"]), (5 if o.get("r") == "ok" else 4, 0, [])))
            elif k == "restart":
                if o.get("r") != "ok":
                    broken = (i, "the restart fails", o)
                    break
                pairs.append((C("Restart"), (7, 0, [])))
            else:
                pairs.append((C("Purge"), (8 if o.get("r") == "ok" else 99, 0, [])))
            prev = after
        if broken:
            out.violation("srv-%s-%d" % (t["id"], broken[0]), {"kind": "spec-monitor", "mode": "srv", "trace": {"id": t["id"], "cfg": t["cfg"], "ops": t["ops"][:broken[0] + 1]},
                                                              "what": broken[1], "response": broken[2]})
            continue
        final = []
        for o in outs[mk["polls_at"]:]:
            final.append([m["id"] for m in o.get("msgs", [])] if o.get("r") == "ok" else [999999999999])   # a partition that cannot be read: never equal to what the monitor expects
        terms.append("rmon_check %d %s %s" % (mk["parts"], show(pairs), show(final)))
        index.append(t)
    vals = coqrun.eval_terms("C17srv", "Base.Tactics Base.ListX Model.Routing", terms, shard_size=12)
    bad = 0
    for t, v in zip(index, vals):
        if v != 0:
            bad += 1
            if bad <= 3:
                mk = t["marks"]
                upto = mk["steps"][v - 1][2] + 1 if 0 < v <= len(mk["steps"]) else len(t["ops"])
                out.violation("srv-mon-%s" % t["id"], {"kind": "spec-monitor", "mode": "srv", "trace": {"id": t["id"], "cfg": t["cfg"], "ops": t["ops"][:upto]}, "monitor_result": v,
                                                       "what": "Routing.rmon_check rejects the server's behaviour: step monitor_result-1 breaks the C17 specification (1000000 = final partition contents differ)",
                                                       "step": mk["steps"][v - 1][0] if 0 < v <= len(mk["steps"]) else None})
    return {"server_traces": len(index), "server_op_histogram": hist, "server_monitor_rejections": bad}


def replay(payload):
    t = {k: v for k, v in payload["trace"].items() if k != "marks"}
    impl = harness.run_traces(payload.get("mode", "route"), [t], shards=1)
    print(json.dumps(impl[t["id"]], indent=1))
    return 0
