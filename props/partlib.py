"""Shared driver for the partition-level properties (C01 C02 C03 C07 C14 C15 C16 C18):
trace generation, execution on the real server (harness mode `srv`), evaluation of Model/Part.v in Coq,
canonicalisation and comparison."""
import json
from vlib import coqrun, harness, util
from vlib.coqterm import C, Raw, show

T0 = 1_700_000_000_000_000
SETUP_OPS = 2  # create_stream, create_topic
IMPORTS = "Base.Tactics Base.ListX Model.Part"
MSG_BASE = 45
HDR_BYTES = 19  # one header "k<i>" -> uint64 : 4 + 2 + 1 + 4 + 8


# ----------------------------------------------------------------------------- traces
def mk_cfg(rng, profile):
    seg_batches = rng.choice([1, 2, 3, 3, 5, 1000])
    msg = MSG_BASE + 10
    cfg = {
        "req": rng.choice([1, 2, 3, 3, 5, 5, 1000]),
        "seg_size": 24 + seg_batches * 3 * msg if seg_batches < 1000 else 1_000_000,
        "cache": rng.random() < 0.35,
        "idx_cache": rng.random() < 0.5,
        "dedup": profile.get("dedup", False) and rng.random() < 0.8,
        "fsync": rng.random() < 0.2,
        "delete_oldest": rng.random() < 0.5,
    }
    if cfg["dedup"]:
        # the time-to-live of remembered ids: a duration, or none (ids are remembered until the capacity is reached)
        cfg["dedup_expiry"] = rng.choice(["1h", "1h", "none", "0", "unlimited"])
    if profile.get("expiry") and rng.random() < 0.85:
        cfg["expiry"] = rng.choice([5_000, 20_000, 100_000, 10_000_000])
    if profile.get("max_size") and rng.random() < 0.85:
        cfg["max_size"] = cfg["seg_size"] * rng.choice([1, 2, 3])
        if cfg["seg_size"] >= 1_000_000:
            cfg["seg_size"] = 24 + 3 * 3 * msg
            cfg["max_size"] = cfg["seg_size"] * rng.choice([1, 2, 3])
    return cfg


HTTP_SHARE = 0.15


class Gen:
    """Builds one history; keeps just enough bookkeeping to aim polls at interesting places."""

    def __init__(self, rng, tid, profile):
        self.rng, self.profile = rng, profile
        self.cfg = mk_cfg(rng, profile)
        self.ops = []
        self.next_id = 1
        self.sent = 0  # upper bound of accepted messages
        self.tid = tid
        self.used_ids = []

    def base(self, d):
        d.update({"stream": 1, "topic": 1})
        return d

    def send(self):
        rng = self.rng
        n = rng.choice([1, 1, 2, 3, 3, 4, 5, 7])
        msgs = []
        for _ in range(n):
            if self.profile.get("dedup") and self.used_ids and rng.random() < 0.35:
                mid = rng.choice(self.used_ids)
            else:
                mid = self.next_id
                self.next_id += 1
            self.used_ids.append(mid)
            msgs.append({"id": mid, "len": rng.choice([10, 10, 10, 1, 1, 33]), "hdr": rng.choice([0, 0, 0, 1, 2])})
        self.sent += n
        self.ops.append(self.base({"op": "send", "part": {"kind": "pid", "id": 1}, "msgs": msgs}))

    def poll(self):
        rng = self.rng
        hi = max(self.sent, 1)
        kind = rng.choice(["offset"] * 6 + ["first", "last", "next", "next", "timestamp"])
        count = rng.choice([1, 2, 3, 5, 8, 13, hi, hi + 5, 1000, 4294967295])
        op = {"op": "poll", "partition": 1, "kind": kind, "value": 0, "count": count}
        if kind == "offset":
            op["value"] = rng.choice([0, 0, rng.randrange(hi + 1), rng.randrange(hi + 1), max(hi - 1, 0), hi, hi + 1])
        if kind == "timestamp":
            # a timestamp around the clock value of some earlier operation
            k = rng.randrange(len(self.ops) + 1)
            op["value"] = T0 + 1000 * (k + SETUP_OPS) + rng.choice([-1, 0, 0, 1])
        if kind == "next" or rng.random() < 0.1:
            op["consumer"] = {"kind": rng.choice(["consumer", "consumer", "group"]) if self.profile.get("groups") else "consumer",
                              "id": rng.choice([1, 2, 7])}
            op["auto_commit"] = rng.random() < 0.5
        self.ops.append(self.base(op))

    def full_poll(self):
        self.ops.append(self.base({"op": "poll", "partition": 1, "kind": "offset", "value": 0, "count": 100000}))

    def step(self):
        rng, pr = self.rng, self.profile
        w = {"send": 30, "poll": 30, "flush": 6, "save": 5, "restart": pr.get("restart", 5), "dump": 4,
             "purge": pr.get("purge", 1), "maintain": pr.get("maintain", 0), "advance": pr.get("advance", 0),
             "evict": 3 if self.cfg["cache"] else 0, "offsets": pr.get("offsets", 2), "update": pr.get("update", 0),
             "stats": pr.get("stats", 2)}
        names = list(w)
        k = rng.choices(names, [w[n] for n in names])[0]
        if k == "send":
            self.send()
        elif k == "poll":
            self.poll()
        elif k == "flush":
            self.ops.append(self.base({"op": "flush", "partition": 1, "fsync": rng.random() < 0.3}))
        elif k == "save":
            self.ops.append({"op": "save"})
        elif k == "restart":
            op = {"op": "restart"}
            if self.cfg.get("idx_cache") and self.profile.get("drop_index") and rng.random() < self.profile["drop_index"]:
                op["drop_index"] = True      # the index files are gone at start-up: the server rebuilds them from the logs
            self.ops.append(op)
        elif k == "dump":
            self.ops.append(self.base({"op": "dump", "partition": 1}))
        elif k == "purge":
            self.ops.append(self.base({"op": "purge_topic"}))
            self.sent = 0
        elif k == "maintain":
            self.ops.append({"op": "maintain"})
        elif k == "advance":
            self.ops.append({"op": "advance", "us": rng.choice([1_000, 4_000, 20_000, 100_000, 20_000_000])})
        elif k == "evict":
            self.ops.append(self.base({"op": "evict", "partition": 1, "bytes": rng.choice([0, 1, 150, 400, 1000, 100000])}))
        elif k == "offsets":
            cons = {"kind": rng.choice(["consumer", "consumer", "group"]) if pr.get("groups") else "consumer", "id": rng.choice([1, 2, 7])}
            kind = rng.choice(["store_offset", "store_offset", "get_offset", "get_offset", "delete_offset"])
            op = {"op": kind, "partition": 1, "consumer": cons}
            if kind == "store_offset":
                op["offset"] = rng.choice([0, rng.randrange(max(self.sent, 1)), max(self.sent - 1, 0), self.sent, self.sent + 3])
            self.ops.append(self.base(op))
        elif k == "update":
            self.cfg_update()
        elif k == "stats":
            self.ops.append(self.base({"op": "get_topic"}))

    def cfg_update(self):
        rng = self.rng
        op = {"op": "update_topic", "name": "t"}
        cur_exp = self.cur_expiry()
        cur_max = self.cur_max()
        if rng.random() < 0.5:
            cur_exp = rng.choice([None, 5_000, 20_000, 100_000])
        else:
            cur_max = rng.choice([None, self.cfg["seg_size"], self.cfg["seg_size"] * 2, self.cfg["seg_size"] * 4])
        op["expiry"], op["max_size"] = cur_exp, cur_max
        self.ops.append(self.base(op))

    def cur_expiry(self):
        for o in reversed(self.ops):
            if o["op"] == "update_topic":
                return o["expiry"]
        return self.cfg.get("expiry")

    def cur_max(self):
        for o in reversed(self.ops):
            if o["op"] == "update_topic":
                return o["max_size"]
        return self.cfg.get("max_size")

    def build(self, n_ops):
        if self.profile.get("groups"):
            for gid in (1, 2, 7):
                self.ops.append(self.base({"op": "create_group", "name": "g%d" % gid, "id": gid}))
        decoy_id = [900000]

        def decoy_send():
            # a second topic of the same stream with data of its own: its size must not count against this topic's limit
            n = self.rng.choice([2, 5, 9])
            self.ops.append({"op": "send", "stream": 1, "topic": 2, "decoy": True, "part": {"kind": "pid", "id": 1},
                             "msgs": [{"id": decoy_id[0] + i, "len": self.rng.choice([10, 200, 700])} for i in range(n)]})
            decoy_id[0] += n
        if self.profile.get("decoy"):
            self.ops.append({"op": "create_topic", "stream": 1, "name": "other", "parts": 1, "id": 2, "decoy": True})
            decoy_send()
        for _ in range(n_ops):
            self.step()
            if self.profile.get("decoy") and self.rng.random() < 0.15:
                decoy_send()
            if self.profile.get("poll_after_each") and self.ops[-1]["op"] not in ("poll", "dump", "get_topic", "get_offset"):
                if self.rng.random() < self.profile["poll_after_each"]:
                    self.full_poll()
        self.full_poll()
        self.ops.append(self.base({"op": "dump", "partition": 1}))
        self.ops.append(self.base({"op": "get_topic"}))
        setup = [{"op": "create_stream", "name": "s", "id": 1},
                 {"op": "create_topic", "stream": 1, "name": "t", "parts": 1, "id": 1,
                  "expiry": self.cfg.get("expiry"), "max_size": self.cfg.get("max_size")}]
        assert len(setup) == SETUP_OPS
        # the HTTP API has handlers of its own for messages and offsets: some of the requests go through it (a consumer group cannot
        # be used there - membership belongs to a connection)
        hr = util.Rng(int(util.digest([self.tid, len(self.ops)])[:12], 16))
        for op in self.ops:
            if op["op"] in ("send", "poll", "store_offset", "get_offset", "delete_offset", "get_topic", "update_topic", "purge_topic", "flush") and not op.get("decoy") \
                    and (op.get("consumer") or {}).get("kind") != "group" and hr.random() < HTTP_SHARE:
                op["c"] = "httproot"
        return {"id": self.tid, "cfg": self.cfg, "ops": setup + self.ops}


def gen_trace(rng, tid, profile):
    g = Gen(rng, tid, profile)
    return g.build(rng.randrange(profile.get("min_ops", 6), profile.get("max_ops", 40)))


# ----------------------------------------------------------------------------- model terms
def opt(v):
    return C("Some", v) if v is not None else None


def cfg_term(cfg):
    return Raw("{| c_req := %d; c_seg := %d; c_cache := %s; c_idx := %s; c_dedup := %s; c_expiry := %s; c_max := %s; c_del_oldest := %s |}" % (
        cfg["req"], cfg["seg_size"], show(bool(cfg["cache"])), show(bool(cfg["idx_cache"])), show(bool(cfg.get("dedup"))),
        show(opt(cfg.get("expiry"))), show(opt(cfg.get("max_size"))), show(bool(cfg.get("delete_oldest")))))


def clock_of(ops):
    """clock value the harness uses while executing op i (it adds 1000 before every op; `advance` adds more)."""
    t, out = T0, []
    for o in ops:
        t += 1000
        if o["op"] == "advance":
            t += o["us"]
        out.append(t)
    return out


def grp(o):
    return (o.get("consumer") or {}).get("kind") == "group"


def cid(o):
    return (o.get("consumer") or {"id": 0}).get("id", 0) if o.get("consumer") else 0


def model_ops(trace):
    """Translate the data operations (after the two set-up ops) into Model/Part.v [op] terms.
    Returns (terms, index map from model op position to trace op position)."""
    ops = trace["ops"]
    clk = clock_of(ops)
    terms, where = [], []
    for i, o in enumerate(ops):
        if i < SETUP_OPS:
            continue
        k = o["op"]
        now = clk[i]
        if o.get("decoy"):
            continue
        if k == "send":
            t = C("OSend", now, [(m["id"], m["len"], HDR_BYTES * m.get("hdr", 0)) for m in o["msgs"]])
        elif k == "flush":
            t = C("OFlush")
        elif k == "save":
            t = C("OSave")
        elif k == "restart":
            t = C("ORestart", now)
        elif k == "purge_topic":
            t = C("OPurge", now)
        elif k == "maintain":
            t = C("OMaintain", now)
        elif k == "evict":
            t = C("OEvict", o["bytes"])
        elif k == "update_topic":
            t = C("OSetCfg", opt(o.get("expiry")), opt(o.get("max_size")))
        elif k == "poll":
            kind = {"offset": C("KOffset", o["value"]), "timestamp": C("KTimestamp", o["value"]), "first": C("KFirst"),
                    "last": C("KLast"), "next": C("KNext")}[o["kind"]]
            # an individual consumer without explicit id is consumer 0 in the harness (Consumer::default() has id 0? no: see canon)
            t = C("OPoll", kind, o["count"], grp(o), cid(o), bool(o.get("auto_commit")))
        elif k == "store_offset":
            t = C("OStore", grp(o), cid(o), o["offset"])
        elif k == "get_offset":
            t = C("OGet", grp(o), cid(o))
        elif k == "delete_offset":
            t = C("ODelete", grp(o), cid(o))
        elif k in ("dump", "get_topic"):
            t = C("ODump")
        elif k in ("advance", "get_stats", "create_group"):
            continue
        else:
            raise ValueError("no model op for %s" % k)
        terms.append(t)
        where.append(i)
    return terms, where


def model_term(trace):
    terms, where = model_ops(trace)
    return "prun0 %s %d %s" % (show(cfg_term(trace["cfg"])), T0 + 1000 * SETUP_OPS, show(terms)), where


# ----------------------------------------------------------------------------- canonical observations
ERR = {"topic_full": 1, "invalid_offset": 2, "consumer_offset_not_found": 3}


def canon_impl(op, ob):
    """Implementation observation -> canonical tuple comparable with canon_model."""
    k = op["op"]
    if ob.get("r") == "err":
        return ("res", ERR.get(ob.get("name"), "err:" + str(ob.get("name"))))
    if k == "poll":
        msgs = [(m["o"], m["id"], m["ts"], m["len"], HDR_BYTES * m["hdr"]) for m in ob["msgs"]]
        return ("msgs", ob["cur"], msgs)
    if k == "get_offset":
        return ("off", ob["stored"] if ob.get("some") else None)
    if k == "maintain":
        return ("lo", ob["lo"])
    if k == "get_topic":
        p = ob["parts"][0]
        return ("topic", ob["size"], ob["msgs"], p["size"], p["msgs"], p["segs"], p["cur"])
    if k == "dump":
        segs = []
        for s in ob["segs"]:
            acc = tuple(s["acc"]) if s["acc"] is not None else None
            idx = [tuple(x) for x in s["idx"]] if s["idx"] is not None else None
            segs.append((s["start"], s["cur"], s["end"], s["closed"], s["size"], s["last_pos"], acc, s["log_len"], s["idx_len"], idx))
        cache = None
        if ob["cache"] is not None:
            cache = ("empty",) if not ob["cache"] else (ob["cache"][0], ob["cache"][1], ob["cache"][2])
        return ("dump", ob["cur"], ob["inc"], ob["unsaved"], segs, cache, ob["msgs_count"], ob["size"])
    return ("res", 0)


def canon_model(v, cfg, op=None):
    name = v.name
    a = v.args
    if op is not None and op["op"] == "get_topic" and name == "ODumped":
        cur, inc, unsaved, segs, cache, msgs, size = a
        return ("topic", size, msgs, size, msgs, len(segs), cur)
    if name == "ORes":
        return ("res", a[0])
    if name == "OMsgs":
        return ("msgs", a[0], [tuple(m) for m in a[1]])
    if name == "OLo":
        return ("lo", a[0])
    if name == "OOff":
        return ("off", a[0][1] if isinstance(a[0], tuple) and a[0][0] == "Some" else None)
    if name == "ODumped":
        cur, inc, unsaved, segs, cache, msgs, size = a
        out = []
        for s in segs:
            start, scur, end, closed, ssize, lastpos, acc, loglen, idxlen, idx = s
            acc = tuple(acc[1]) if isinstance(acc, tuple) and acc[0] == "Some" else None
            out.append((start, scur, end, closed, ssize, lastpos, acc, loglen, idxlen,
                        [tuple(x) for x in idx] if cfg["idx_cache"] else None))
        c = None
        if isinstance(cache, tuple) and cache[0] == "Some":
            offs = cache[1]
            c = ("empty",) if not offs else (offs[0], offs[-1], len(offs))
        return ("dump", cur, inc, unsaved, out, c, msgs, size)
    raise ValueError(name)


def obs_term(c):
    """canonical implementation observation -> Coq [obs] term (input of the spec monitor)."""
    k = c[0]
    if k == "res":
        return C("ORes", c[1] if isinstance(c[1], int) else 99)
    if k == "msgs":
        return C("OMsgs", c[1], [tuple(m) for m in c[2]])
    if k == "off":
        return C("OOff", opt(c[1]))
    if k == "lo":
        return C("OLo", c[1])
    if k == "topic":
        _, tsize, tmsgs, psize, pmsgs, nsegs, cur = c
        return C("ODumped", cur, True, 0, [], None, pmsgs, psize)
    if k == "dump":
        _, cur, inc, unsaved, segs, cache, msgs, size = c
        st = []
        for (start, scur, end, closed, ssize, lastpos, acc, loglen, idxlen, idx) in segs:
            st.append((start, scur, end, bool(closed), ssize, lastpos, opt(tuple(acc)) if acc is not None else None,
                       min(loglen, 2**63), min(idxlen, 2**63), [tuple(x) for x in (idx or [])]))
        ch = None
        if cache is not None:
            ch = C("Some", [] if cache == ("empty",) else list(range(cache[0], cache[1] + 1)))
        return C("ODumped", cur, bool(inc), unsaved, st, ch, msgs, size)
    raise ValueError(k)


def run_traces(tag, traces):
    """Runs the traces on the implementation and the model. Returns list of dicts:
    {trace, impl (raw), pairs: [(op index, op, impl canon, model canon)], crash}."""
    on = [t for t in traces if t["cfg"]["cache"]]
    off = [t for t in traces if not t["cfg"]["cache"]]
    impl = {}
    for group in (on, off):  # the cache memory tracker is a process-wide singleton: one setting per process
        if group:
            impl.update(harness.run_traces("srv", group, shards=max(1, min(util.NCPU // 2, len(group)))))
    terms, wheres = [], []
    for t in traces:
        term, where = model_term(t)
        terms.append(term)
        wheres.append(where)
    vals = coqrun.eval_terms(tag, IMPORTS, terms, shard_size=25)
    results = []
    for t, where, mv in zip(traces, wheres, vals):
        ob = impl[t["id"]]
        r = {"trace": t, "impl": ob, "pairs": [], "crash": None}
        if "crash" in ob or "init_err" in ob:
            r["crash"] = ob.get("crash") or ob.get("init_err")
            results.append(r)
            continue
        outs = ob["outs"]
        for j, i in enumerate(where):
            if i >= len(outs):
                r["crash"] = "trace stopped at op %d: %s" % (len(outs) - 1, json.dumps(outs[-1]) if outs else "")
                break
            r["pairs"].append((i, t["ops"][i], canon_impl(t["ops"][i], outs[i]), canon_model(mv[j], t["cfg"], t["ops"][i]), outs[i]))
        results.append(r)
    # spec monitor evaluated on the IMPLEMENTATION's observations, and the model run through the same monitor
    mterms, midx = [], []
    for n, (t, r) in enumerate(zip(traces, results)):
        if r["crash"]:
            continue
        ops, _ = model_ops(t)
        pairs = [(o, obs_term(p[2])) for o, p in zip(ops, r["pairs"])]
        mterms.append("(mon_check %s %s, model_check %s %d %s)" % (
            show(cfg_term(t["cfg"])), show(pairs), show(cfg_term(t["cfg"])), T0 + 1000 * SETUP_OPS, show(ops)))
        midx.append(n)
    mvals = coqrun.eval_terms(tag + "_mon", IMPORTS + " Model.PartSpec", mterms, shard_size=25)
    for n, (mi, mm) in zip(midx, mvals):
        results[n]["monitor_impl"] = mi      # 0 = accepted, k+1 = k-th model-level op rejected
        results[n]["monitor_model"] = mm
    return results


# ----------------------------------------------------------------------------- per-property checks
PROFILES = {
    "C01": [{"restart": 7, "purge": 3, "maintain": 5, "advance": 5, "expiry": True, "dedup": True, "poll_after_each": 0.5, "max_ops": 32},
            {"restart": 5, "purge": 2, "max_size": True, "maintain": 4, "poll_after_each": 0.4, "max_ops": 28}],
    "C02": [{"restart": 5, "purge": 1, "poll_after_each": 0.2, "max_ops": 36},
            {"restart": 5, "purge": 1, "maintain": 5, "advance": 5, "expiry": True, "poll_after_each": 0.2, "max_ops": 36}],
    "C03": [{"restart": 18, "purge": 2, "maintain": 4, "advance": 4, "expiry": True, "dedup": True, "poll_after_each": 0.6, "max_ops": 30, "groups": True, "offsets": 5, "drop_index": 0.3}],
    "C07": [{"restart": 6, "purge": 4, "groups": True, "offsets": 28, "poll_after_each": 0.1, "max_ops": 36}],
    "C14": [{"restart": 6, "purge": 1, "maintain": 12, "advance": 12, "expiry": True, "update": 4, "poll_after_each": 0.4, "max_ops": 34}],
    "C15": [{"restart": 4, "purge": 1, "maintain": 10, "advance": 2, "max_size": True, "update": 4, "poll_after_each": 0.3, "stats": 6, "max_ops": 34, "decoy": True}],
    "C16": [{"restart": 8, "purge": 4, "maintain": 6, "advance": 6, "expiry": True, "dedup": True, "stats": 14, "poll_after_each": 0.2, "max_ops": 34},
            {"restart": 6, "purge": 3, "maintain": 6, "max_size": True, "stats": 14, "poll_after_each": 0.2, "max_ops": 30}],
    "C18": [{"restart": 8, "purge": 1, "dedup": True, "poll_after_each": 0.5, "max_ops": 32}],
}
COUNTS = {"quick": 160, "thorough": 2400}


def _send(ids, length=10, hdr=0):
    return {"op": "send", "stream": 1, "topic": 1, "part": {"kind": "pid", "id": 1}, "msgs": [{"id": i, "len": length, "hdr": hdr} for i in ids]}


def _poll(kind, value, count, **kw):
    d = {"op": "poll", "stream": 1, "topic": 1, "partition": 1, "kind": kind, "value": value, "count": count}
    d.update(kw)
    return d


def _mk(tid, cfg, ops):
    base = {"req": 5, "seg_size": 1_000_000, "cache": False, "idx_cache": True, "dedup": False, "fsync": False, "delete_oldest": False}
    base.update(cfg)
    setup = [{"op": "create_stream", "name": "s", "id": 1},
             {"op": "create_topic", "stream": 1, "name": "t", "parts": 1, "id": 1, "expiry": base.get("expiry"), "max_size": base.get("max_size")}]
    tail = [_poll("offset", 0, 100000), {"op": "dump", "stream": 1, "topic": 1, "partition": 1}]
    return {"id": tid, "cfg": base, "ops": setup + ops + tail}


FLUSH = {"op": "flush", "stream": 1, "topic": 1, "partition": 1}
DUMP = {"op": "dump", "stream": 1, "topic": 1, "partition": 1}
GROUPS = [{"op": "create_group", "stream": 1, "topic": 1, "name": "g%d" % g, "id": g} for g in (1, 2, 7)]


def corpus():
    """Minimised witnesses of the defects repaired in /repo (see KNOWN_FINDINGS.txt); they run first in every
    partition-family check so that a regression is reported with a small replay."""
    seg3 = 24 + 3 * 55  # one segment = exactly one stored batch of three 10-byte messages
    cs = []
    for idx in (True, False):
        cs.append(_mk("corpus-E1-idx%d" % idx, {"idx_cache": idx}, [_send(range(1, 6)), _send(range(6, 11)), _send(range(11, 14)),
                                                                   _poll("offset", 0, 13), _poll("offset", 5, 5), _poll("offset", 8, 4)]))
        cs.append(_mk("corpus-E9-idx%d" % idx, {"idx_cache": idx, "req": 3, "seg_size": 24 + 4 * (24 + 3 * 55) - 24},
                      [_send(range(i, i + 3)) for i in range(1, 37, 3)] + [_poll("offset", 12, 12), _poll("offset", 10, 20), _poll("offset", 25, 6)]))
    cs.append(_mk("corpus-E2", {"req": 100}, [_send(range(1, 11)), FLUSH, {"op": "restart"}, _send(range(11, 14)),
                                              _poll("offset", 0, 13), _poll("offset", 9, 1), FLUSH, _poll("offset", 0, 13), {"op": "restart"}]))
    cs.append(_mk("corpus-E3", {"req": 3, "seg_size": seg3, "expiry": 5000},
                  [_send(range(i, i + 3)) for i in range(1, 13, 3)] + [{"op": "advance", "us": 100000}, {"op": "maintain"}, DUMP, {"op": "restart"}, DUMP,
                                                                      _send(range(13, 16)), _poll("offset", 0, 100)]))
    cs.append(_mk("corpus-E3b", {"req": 3, "seg_size": seg3, "expiry": 50000},
                  [_send(range(1, 4)), _send(range(4, 7)), {"op": "advance", "us": 100000}, _send(range(7, 10)), _send(range(10, 13)), {"op": "maintain"},
                   _poll("first", 0, 5), _poll("first", 0, 2), _poll("offset", 3, 2), _poll("offset", 3, 30), _poll("next", 0, 4, consumer={"kind": "consumer", "id": 2}),
                   _poll("last", 0, 100)]))
    cs.append(_mk("corpus-E16", {}, [_send(range(1, 6)), _send(range(6, 11)), FLUSH, _poll("offset", 3, 4294967295), _poll("offset", 0, 4294967295),
                                     _poll("timestamp", T0, 4294967295), _poll("last", 0, 4294967295)]))
    cs.append(_mk("corpus-E4", {}, GROUPS + [_send(range(1, 11)),
                                             {"op": "store_offset", "stream": 1, "topic": 1, "partition": 1, "consumer": {"kind": "group", "id": 7}, "offset": 4},
                                             {"op": "get_offset", "stream": 1, "topic": 1, "partition": 1, "consumer": {"kind": "group", "id": 7}},
                                             {"op": "get_offset", "stream": 1, "topic": 1, "partition": 1, "consumer": {"kind": "consumer", "id": 7}},
                                             {"op": "store_offset", "stream": 1, "topic": 1, "partition": 1, "consumer": {"kind": "consumer", "id": 7}, "offset": 2},
                                             {"op": "get_offset", "stream": 1, "topic": 1, "partition": 1, "consumer": {"kind": "group", "id": 7}},
                                             _poll("next", 0, 3, consumer={"kind": "group", "id": 7}, auto_commit=True),
                                             {"op": "get_offset", "stream": 1, "topic": 1, "partition": 1, "consumer": {"kind": "group", "id": 7}}]))
    for dl in (True, False):
        cs.append(_mk("corpus-E8-del%d" % dl, {"req": 1, "seg_size": seg3, "max_size": seg3, "delete_oldest": dl},
                      [_send([i]) for i in range(1, 9)] + [{"op": "maintain"}, _send([9]), _send([10])]))
    cs.append(_mk("corpus-E17", {"req": 1000, "seg_size": 100_000_000, "fsync": True},
                  [_send([1, 2, 3], 1_000_000), FLUSH, _poll("offset", 0, 10), _send([4], 100), FLUSH, _poll("offset", 0, 10), {"op": "restart"}]))
    return cs


def attribution(t, i, op):
    """Which properties an anomaly at op i of trace t speaks about."""
    before = [o["op"] for o in t["ops"][:i]]
    k = op["op"]
    props = set()
    if k == "send":
        props |= {"C01", "C15"}
        if t["cfg"].get("dedup"):
            props.add("C18")
    elif k == "poll":
        props |= {"C02", "C01", "C12"}
        if "restart" in before:
            props.add("C03")
        if "maintain" in before:
            props |= {"C14", "C15"}
        if op["kind"] == "next" or op.get("auto_commit"):
            props.add("C07")
        if t["cfg"].get("dedup"):
            props.add("C18")
    elif k in ("store_offset", "get_offset", "delete_offset"):
        props |= {"C07"}
        if "restart" in before:
            props.add("C03")
    elif k == "maintain":
        props |= {"C14", "C15"}
    elif k in ("dump", "get_topic"):
        props |= {"C16", "C01"}
        if "restart" in before:
            props.add("C03")
        if "maintain" in before:
            props |= {"C14", "C15"}
    elif k == "restart":
        props |= {"C03", "C01"}
    else:
        props |= {"C01", "C02"}
    return props


def shape_flags(t, r):
    fl = set()
    ops = [o["op"] for o in t["ops"]]
    if "restart" in ops and any(o == "send" for o in ops[ops.index("restart"):]):
        fl.add("send_after_restart")
    if "maintain" in ops:
        fl.add("maintain")
    if "purge_topic" in ops:
        fl.add("purge")
    if t["cfg"].get("dedup"):
        fl.add("dedup")
    if t["cfg"]["cache"]:
        fl.add("cache")
    if "evict" in ops:
        fl.add("evict")
    for (i, op, ic, mc, raw) in r["pairs"]:
        if op["op"] == "dump" and ic[0] == "dump":
            segs = ic[4]
            if len(segs) > 1:
                fl.add("multi_segment")
            if any(s[6] is not None and s[6][2] > 0 and s[7] > 0 for s in segs):
                fl.add("disk_and_buffer")
            if segs and segs[0][0] > 0:
                fl.add("retention_removed_prefix")
        if op["op"] == "poll" and ic[0] == "msgs" and len(ic[2]) > 3:
            fl.add("multi_message_poll")
        if ic[0] == "res" and ic[1] == 1:
            fl.add("topic_full")
        if op["op"] == "maintain" and ic[0] == "lo" and ic[1] > 0:
            fl.add("retention_advanced")
    return fl


def check(out, tier, seed, prop):
    """Runs corpus + generated histories for [prop]; reports monitor rejections (concrete violations) and
    model/implementation disagreements attributed to [prop]."""
    rng = util.Rng(seed * 1000003 + int(prop[1:]))
    n = COUNTS[tier]
    profiles = PROFILES[prop]
    traces = corpus() + [gen_trace(rng, "%s-g%d" % (prop, i), profiles[i % len(profiles)]) for i in range(n)]
    results = run_traces(prop, traces)
    hist, flags, nontrivial = {}, {}, set()
    disagreements, rejections, crashes = 0, 0, 0
    reported = 0
    for r in results:
        t = r["trace"]
        for o in t["ops"]:
            hist[o["op"]] = hist.get(o["op"], 0) + 1
        if r["crash"]:
            crashes += 1
            if reported < 3:
                out.violation("crash-%s" % t["id"], {"kind": "impl-crash", "mode": "srv", "trace": t, "detail": str(r["crash"])[-1500:]})
                reported += 1
            continue
        fl = shape_flags(t, r)
        for f in fl:
            flags[f] = flags.get(f, 0) + 1
        if fl:
            nontrivial.add(util.digest(t["ops"]))
        mi = r.get("monitor_impl", 0)
        if mi:
            i, op, ic, mc, raw = r["pairs"][mi - 1]
            if prop in attribution(t, i, op):
                rejections += 1
                if reported < 3:
                    out.violation("mon-%s" % t["id"], {"kind": "spec-monitor", "mode": "srv", "trace": t, "rejected_op_index": i, "op": op,
                                                       "impl_observation": raw, "what": "the partition specification (Model/PartSpec.v mon_step) rejects this observation"})
                    reported += 1
                continue
        if r.get("monitor_model", 0):
            # the model itself breaks the specification: the refinement theorem cannot hold any more
            out.violation("model-vs-spec-%s" % t["id"], {"kind": "model-vs-spec", "no_longer_checks": "theorem part_refines (Model/Part.v vs Model/PartSpec.v)",
                                                         "trace": t, "rejected_model_op": r["monitor_model"] - 1}, no_failing_input=True)
            continue
        for (i, op, ic, mc, raw) in r["pairs"]:
            if ic != mc:
                if prop in attribution(t, i, op):
                    disagreements += 1
                    if reported < 3:
                        out.violation("corr-%s" % t["id"], {"kind": "correspondence", "no_longer_checks": "corr_%s_part (Model/Part.v vs the storage engine)" % prop,
                                                            "mode": "srv", "trace": t, "op_index": i, "op": op, "impl": ic, "model": mc},
                                      no_failing_input=True)
                        reported += 1
                break
    return {
        "traces_validated_against_impl": len(results), "evaluations": len(results), "distinct_nontrivial": len(nontrivial),
        "rule": "corpus of minimised witnesses + seeded random histories (profile per property) on the in-process server; every operation's observation compared with Model/Part.v and checked by the spec monitor; non-trivial = reaches a shape flag; distinct by hash of the op list",
        "op_histogram": hist, "shape_flags": flags, "monitor_rejections": rejections, "model_impl_disagreements": disagreements,
        "impl_crashes": crashes, "samples": [traces[0]["ops"][2:8], traces[len(corpus())]["ops"][2:10]],
    }


def replay(payload):
    t = payload["trace"]
    res = run_traces("replay", [t])
    r = res[0]
    print(json.dumps({"crash": r["crash"], "monitor_impl": r.get("monitor_impl"), "monitor_model": r.get("monitor_model")}))
    for (i, op, ic, mc, raw) in r["pairs"]:
        if ic != mc:
            print("first difference at op", i, json.dumps(op))
            print(" impl ", ic)
            print(" model", mc)
            return 1
    return 1 if r.get("monitor_impl") else 0
