"""Shared driver for the partition-level properties (C01 C02 C03 C07 C14 C15 C16 C18):
trace generation, execution on the real server (harness mode `srv`), evaluation of Model/Part.v in Coq,
canonicalisation and comparison."""
import json
from vlib import coqrun, harness, util
from vlib.coqterm import C, Raw, show

T0 = 1_700_000_000_000_000
SETUP_OPS = 2  # create_stream, create_topic
IMPORTS = "Base.Tactics Base.ListX Model.Part"
MSG_BASE = 45
HDR_BYTES = 19  # one header "k<i>" -> uint64 : 4 + 2 + 1 + 4 + 8


# ----------------------------------------------------------------------------- traces
def mk_cfg(rng, profile):
    seg_batches = rng.choice([1, 2, 3, 3, 5, 1000])
    msg = MSG_BASE + 10
    cfg = {
        "req": rng.choice([1, 2, 3, 3, 5, 5, 1000]),
        "seg_size": 24 + seg_batches * 3 * msg if seg_batches < 1000 else 1_000_000,
        "cache": rng.random() < 0.35,
        "idx_cache": rng.random() < 0.5,
        "dedup": profile.get("dedup", False) and rng.random() < 0.8,
        "fsync": rng.random() < 0.2,
        "delete_oldest": rng.random() < 0.5,
    }
    if profile.get("expiry") and rng.random() < 0.85:
        cfg["expiry"] = rng.choice([5_000, 20_000, 100_000, 10_000_000])
    if profile.get("max_size") and rng.random() < 0.85:
        cfg["max_size"] = cfg["seg_size"] * rng.choice([1, 2, 3])
        if cfg["seg_size"] >= 1_000_000:
            cfg["seg_size"] = 24 + 3 * 3 * msg
            cfg["max_size"] = cfg["seg_size"] * rng.choice([1, 2, 3])
    return cfg


class Gen:
    """Builds one history; keeps just enough bookkeeping to aim polls at interesting places."""

    def __init__(self, rng, tid, profile):
        self.rng, self.profile = rng, profile
        self.cfg = mk_cfg(rng, profile)
        self.ops = []
        self.next_id = 1
        self.sent = 0  # upper bound of accepted messages
        self.tid = tid
        self.used_ids = []

    def base(self, d):
        d.update({"stream": 1, "topic": 1})
        return d

    def send(self):
        rng = self.rng
        n = rng.choice([1, 1, 2, 3, 3, 4, 5, 7])
        msgs = []
        for _ in range(n):
            if self.profile.get("dedup") and self.used_ids and rng.random() < 0.35:
                mid = rng.choice(self.used_ids)
            else:
                mid = self.next_id
                self.next_id += 1
            self.used_ids.append(mid)
            msgs.append({"id": mid, "len": rng.choice([10, 10, 10, 1, 1, 33]), "hdr": rng.choice([0, 0, 0, 1, 2])})
        self.sent += n
        self.ops.append(self.base({"op": "send", "part": {"kind": "pid", "id": 1}, "msgs": msgs}))

    def poll(self):
        rng = self.rng
        hi = max(self.sent, 1)
        kind = rng.choice(["offset"] * 6 + ["first", "last", "next", "next", "timestamp"])
        count = rng.choice([1, 2, 3, 5, 8, 13, hi, hi + 5, 1000, 4294967295])
        op = {"op": "poll", "partition": 1, "kind": kind, "value": 0, "count": count}
        if kind == "offset":
            op["value"] = rng.choice([0, 0, rng.randrange(hi + 1), rng.randrange(hi + 1), max(hi - 1, 0), hi, hi + 1])
        if kind == "timestamp":
            # a timestamp around the clock value of some earlier operation
            k = rng.randrange(len(self.ops) + 1)
            op["value"] = T0 + 1000 * (k + SETUP_OPS) + rng.choice([-1, 0, 0, 1])
        if kind == "next" or rng.random() < 0.1:
            op["consumer"] = {"kind": rng.choice(["consumer", "consumer", "group"]) if self.profile.get("groups") else "consumer",
                              "id": rng.choice([1, 2, 7])}
            op["auto_commit"] = rng.random() < 0.5
        self.ops.append(self.base(op))

    def full_poll(self):
        self.ops.append(self.base({"op": "poll", "partition": 1, "kind": "offset", "value": 0, "count": 100000}))

    def step(self):
        rng, pr = self.rng, self.profile
        w = {"send": 30, "poll": 30, "flush": 6, "save": 5, "restart": pr.get("restart", 5), "dump": 4,
             "purge": pr.get("purge", 1), "maintain": pr.get("maintain", 0), "advance": pr.get("advance", 0),
             "evict": 3 if self.cfg["cache"] else 0, "offsets": pr.get("offsets", 2), "update": pr.get("update", 0),
             "stats": pr.get("stats", 2)}
        names = list(w)
        k = rng.choices(names, [w[n] for n in names])[0]
        if k == "send":
            self.send()
        elif k == "poll":
            self.poll()
        elif k == "flush":
            self.ops.append(self.base({"op": "flush", "partition": 1, "fsync": rng.random() < 0.3}))
        elif k == "save":
            self.ops.append({"op": "save"})
        elif k == "restart":
            self.ops.append({"op": "restart"})
        elif k == "dump":
            self.ops.append(self.base({"op": "dump", "partition": 1}))
        elif k == "purge":
            self.ops.append(self.base({"op": "purge_topic"}))
            self.sent = 0
        elif k == "maintain":
            self.ops.append({"op": "maintain"})
        elif k == "advance":
            self.ops.append({"op": "advance", "us": rng.choice([1_000, 4_000, 20_000, 100_000, 20_000_000])})
        elif k == "evict":
            self.ops.append(self.base({"op": "evict", "partition": 1, "bytes": rng.choice([0, 1, 150, 400, 1000, 100000])}))
        elif k == "offsets":
            cons = {"kind": rng.choice(["consumer", "consumer", "group"]) if pr.get("groups") else "consumer", "id": rng.choice([1, 2, 7])}
            kind = rng.choice(["store_offset", "store_offset", "get_offset", "get_offset", "delete_offset"])
            op = {"op": kind, "partition": 1, "consumer": cons}
            if kind == "store_offset":
                op["offset"] = rng.choice([0, rng.randrange(max(self.sent, 1)), max(self.sent - 1, 0), self.sent, self.sent + 3])
            self.ops.append(self.base(op))
        elif k == "update":
            self.cfg_update()
        elif k == "stats":
            self.ops.append(self.base({"op": "get_topic"}))

    def cfg_update(self):
        rng = self.rng
        op = {"op": "update_topic", "name": "t"}
        cur_exp = self.cur_expiry()
        cur_max = self.cur_max()
        if rng.random() < 0.5:
            cur_exp = rng.choice([None, 5_000, 20_000, 100_000])
        else:
            cur_max = rng.choice([None, self.cfg["seg_size"], self.cfg["seg_size"] * 2, self.cfg["seg_size"] * 4])
        op["expiry"], op["max_size"] = cur_exp, cur_max
        self.ops.append(self.base(op))

    def cur_expiry(self):
        for o in reversed(self.ops):
            if o["op"] == "update_topic":
                return o["expiry"]
        return self.cfg.get("expiry")

    def cur_max(self):
        for o in reversed(self.ops):
            if o["op"] == "update_topic":
                return o["max_size"]
        return self.cfg.get("max_size")

    def build(self, n_ops):
        if self.profile.get("groups"):
            for gid in (1, 2, 7):
                self.ops.append(self.base({"op": "create_group", "name": "g%d" % gid, "id": gid}))
        for _ in range(n_ops):
            self.step()
            if self.profile.get("poll_after_each") and self.ops[-1]["op"] not in ("poll", "dump", "get_topic", "get_offset"):
                if self.rng.random() < self.profile["poll_after_each"]:
                    self.full_poll()
        self.full_poll()
        self.ops.append(self.base({"op": "dump", "partition": 1}))
        self.ops.append(self.base({"op": "get_topic"}))
        setup = [{"op": "create_stream", "name": "s", "id": 1},
                 {"op": "create_topic", "stream": 1, "name": "t", "parts": 1, "id": 1,
                  "expiry": self.cfg.get("expiry"), "max_size": self.cfg.get("max_size")}]
        assert len(setup) == SETUP_OPS
        return {"id": self.tid, "cfg": self.cfg, "ops": setup + self.ops}


def gen_trace(rng, tid, profile):
    g = Gen(rng, tid, profile)
    return g.build(rng.randrange(profile.get("min_ops", 6), profile.get("max_ops", 40)))


# ----------------------------------------------------------------------------- model terms
def opt(v):
    return C("Some", v) if v is not None else None


def cfg_term(cfg):
    return Raw("{| c_req := %d; c_seg := %d; c_cache := %s; c_idx := %s; c_dedup := %s; c_expiry := %s; c_max := %s; c_del_oldest := %s |}" % (
        cfg["req"], cfg["seg_size"], show(bool(cfg["cache"])), show(bool(cfg["idx_cache"])), show(bool(cfg.get("dedup"))),
        show(opt(cfg.get("expiry"))), show(opt(cfg.get("max_size"))), show(bool(cfg.get("delete_oldest")))))


def clock_of(ops):
    """clock value the harness uses while executing op i (it adds 1000 before every op; `advance` adds more)."""
    t, out = T0, []
    for o in ops:
        t += 1000
        if o["op"] == "advance":
            t += o["us"]
        out.append(t)
    return out


def grp(o):
    return (o.get("consumer") or {}).get("kind") == "group"


def cid(o):
    return (o.get("consumer") or {"id": 0}).get("id", 0) if o.get("consumer") else 0


def model_ops(trace):
    """Translate the data operations (after the two set-up ops) into Model/Part.v [op] terms.
    Returns (terms, index map from model op position to trace op position)."""
    ops = trace["ops"]
    clk = clock_of(ops)
    terms, where = [], []
    for i, o in enumerate(ops):
        if i < SETUP_OPS:
            continue
        k = o["op"]
        now = clk[i]
        if k == "send":
            t = C("OSend", now, [(m["id"], m["len"], HDR_BYTES * m.get("hdr", 0)) for m in o["msgs"]])
        elif k == "flush":
            t = C("OFlush")
        elif k == "save":
            t = C("OSave")
        elif k == "restart":
            t = C("ORestart", now)
        elif k == "purge_topic":
            t = C("OPurge", now)
        elif k == "maintain":
            t = C("OMaintain", now)
        elif k == "evict":
            t = C("OEvict", o["bytes"])
        elif k == "update_topic":
            t = C("OSetCfg", opt(o.get("expiry")), opt(o.get("max_size")))
        elif k == "poll":
            kind = {"offset": C("KOffset", o["value"]), "timestamp": C("KTimestamp", o["value"]), "first": C("KFirst"),
                    "last": C("KLast"), "next": C("KNext")}[o["kind"]]
            # an individual consumer without explicit id is consumer 0 in the harness (Consumer::default() has id 0? no: see canon)
            t = C("OPoll", kind, o["count"], grp(o), cid(o), bool(o.get("auto_commit")))
        elif k == "store_offset":
            t = C("OStore", grp(o), cid(o), o["offset"])
        elif k == "get_offset":
            t = C("OGet", grp(o), cid(o))
        elif k == "delete_offset":
            t = C("ODelete", grp(o), cid(o))
        elif k == "dump":
            t = C("ODump")
        elif k in ("advance", "get_topic", "get_stats", "create_group"):
            continue
        else:
            raise ValueError("no model op for %s" % k)
        terms.append(t)
        where.append(i)
    return terms, where


def model_term(trace):
    terms, where = model_ops(trace)
    return "prun0 %s %d %s" % (show(cfg_term(trace["cfg"])), T0 + 1000 * SETUP_OPS, show(terms)), where


# ----------------------------------------------------------------------------- canonical observations
ERR = {"topic_full": 1, "invalid_offset": 2, "consumer_offset_not_found": 3}


def canon_impl(op, ob):
    """Implementation observation -> canonical tuple comparable with canon_model."""
    k = op["op"]
    if ob.get("r") == "err":
        return ("res", ERR.get(ob.get("name"), "err:" + str(ob.get("name"))))
    if k == "poll":
        msgs = [(m["o"], m["id"], m["ts"], m["len"], HDR_BYTES * m["hdr"]) for m in ob["msgs"]]
        return ("msgs", ob["cur"], msgs)
    if k == "get_offset":
        return ("off", ob["stored"] if ob.get("some") else None)
    if k == "dump":
        segs = []
        for s in ob["segs"]:
            acc = tuple(s["acc"]) if s["acc"] is not None else None
            idx = [tuple(x) for x in s["idx"]] if s["idx"] is not None else None
            segs.append((s["start"], s["cur"], s["end"], s["closed"], s["size"], s["last_pos"], acc, s["log_len"], s["idx_len"], idx))
        cache = None
        if ob["cache"] is not None:
            cache = ("empty",) if not ob["cache"] else (ob["cache"][0], ob["cache"][1], ob["cache"][2])
        return ("dump", ob["cur"], ob["inc"], ob["unsaved"], segs, cache, ob["msgs_count"], ob["size"])
    return ("res", 0)


def canon_model(v, cfg):
    name = v.name
    a = v.args
    if name == "ORes":
        return ("res", a[0])
    if name == "OMsgs":
        return ("msgs", a[0], [tuple(m) for m in a[1]])
    if name == "OOff":
        return ("off", a[0][1] if isinstance(a[0], tuple) and a[0][0] == "Some" else None)
    if name == "ODumped":
        cur, inc, unsaved, segs, cache, msgs, size = a
        out = []
        for s in segs:
            start, scur, end, closed, ssize, lastpos, acc, loglen, idxlen, idx = s
            acc = tuple(acc[1]) if isinstance(acc, tuple) and acc[0] == "Some" else None
            out.append((start, scur, end, closed, ssize, lastpos, acc, loglen, idxlen,
                        [tuple(x) for x in idx] if cfg["idx_cache"] else None))
        c = None
        if isinstance(cache, tuple) and cache[0] == "Some":
            offs = cache[1]
            c = ("empty",) if not offs else (offs[0], offs[-1], len(offs))
        return ("dump", cur, inc, unsaved, out, c, msgs, size)
    raise ValueError(name)


def run_traces(tag, traces):
    """Runs the traces on the implementation and the model. Returns list of dicts:
    {trace, impl (raw), pairs: [(op index, op, impl canon, model canon)], crash}."""
    on = [t for t in traces if t["cfg"]["cache"]]
    off = [t for t in traces if not t["cfg"]["cache"]]
    impl = {}
    for group in (on, off):  # the cache memory tracker is a process-wide singleton: one setting per process
        if group:
            impl.update(harness.run_traces("srv", group, shards=max(1, min(util.NCPU // 2, len(group)))))
    terms, wheres = [], []
    for t in traces:
        term, where = model_term(t)
        terms.append(term)
        wheres.append(where)
    vals = coqrun.eval_terms(tag, IMPORTS, terms, shard_size=25)
    results = []
    for t, where, mv in zip(traces, wheres, vals):
        ob = impl[t["id"]]
        r = {"trace": t, "impl": ob, "pairs": [], "crash": None}
        if "crash" in ob or "init_err" in ob:
            r["crash"] = ob.get("crash") or ob.get("init_err")
            results.append(r)
            continue
        outs = ob["outs"]
        for j, i in enumerate(where):
            if i >= len(outs):
                r["crash"] = "trace stopped at op %d: %s" % (len(outs) - 1, json.dumps(outs[-1]) if outs else "")
                break
            r["pairs"].append((i, t["ops"][i], canon_impl(t["ops"][i], outs[i]), canon_model(mv[j], t["cfg"]), outs[i]))
        results.append(r)
    return results
