"""C16 - reported sizes and counts. Partition-family check (props/partlib.py: one partition against Model/Part.v with the counters in the
observation) plus an accounting audit over whole catalogues: histories over several streams / topics / partitions with sends, saves,
roll-overs, purges, deletions of non-empty entities, refused requests, retention passes, restarts and server-side encryption; at every
audit each reported figure is compared with what is stored (full polls, segment files) and with the sums over its children."""
import base64, json
from props import partlib
from vlib import harness, util

ASSUMPTIONS = [
    "single stream / topic / partition driven through the real TCP server with the SDK client; white-box dump via the SharedSystem handle",
    "clock pinned by the verif_hooks clock (deterministic timestamps); wait confirmation; message cache budget never reached (eviction only via explicit evict)",
    "u32 narrowing of positions/relative offsets is modelled; sizes stay far below 2^32 in the generated histories",
    "the accounting audit over several streams / topics / partitions is a specification monitor on the implementation's answers (sums, full polls, file sizes), not a model comparison",
]
KEY = base64.b64encode(bytes(range(7, 39))).decode()


def gen_accounting(rng, tid):
    cfg = {"req": rng.choice([1, 2, 1000]), "seg_size": rng.choice([700, 2000, 1_000_000]), "cache": rng.random() < 0.3, "delete_oldest": rng.random() < 0.5}
    if rng.random() < 0.3:
        cfg["enc_key"] = KEY
    cat = {}          # stream id -> {topic id -> partitions}
    ops = []
    names = [0]
    mid = [0]

    def fresh():
        names[0] += 1
        return "n%d" % names[0]

    def pick_topic():
        c = [(s, t) for s in cat for t in cat[s]]
        return rng.choice(c) if c else None

    def audit():
        ops.append({"op": "audit"})

    for _ in range(rng.randrange(14, 36)):
        k = rng.choices(["stream", "topic", "send", "send", "send", "send", "flush", "purge_topic", "purge_stream", "del_topic", "del_stream", "add_parts", "del_parts",
                         "group", "retention", "restart", "audit", "refused"], [4, 6, 8, 8, 8, 8, 3, 3, 1, 2, 1, 3, 3, 2, 3, 3, 5, 4])[0]
        if k == "stream" or not cat:
            sid = rng.choice([i for i in range(1, 5) if i not in cat] or [9])
            if sid not in cat:
                ops.append({"op": "create_stream", "name": fresh(), "id": sid})
                cat[sid] = {}
            continue
        if k == "topic" or not pick_topic():
            sid = rng.choice(list(cat))
            tid_ = rng.choice([i for i in range(1, 4) if i not in cat[sid]] or [0])
            if tid_:
                parts = rng.choice([1, 2, 3])
                op = {"op": "create_topic", "stream": sid, "name": fresh(), "parts": parts, "id": tid_}
                if rng.random() < 0.4:
                    op["expiry"] = rng.choice([30_000, 200_000])
                ops.append(op)
                cat[sid][tid_] = parts
            continue
        sid, t = pick_topic()
        if k == "send":
            if cat[sid][t] == 0:
                continue
            msgs = []
            for _ in range(rng.randrange(1, 5)):
                mid[0] += 1
                msgs.append({"id": mid[0], "len": rng.choice([1, 10, 100, 400]), "hdr": rng.choice([0, 0, 2])})
            ops.append({"op": "send", "stream": sid, "topic": t, "part": {"kind": "pid", "id": rng.randrange(1, cat[sid][t] + 1)}, "msgs": msgs})
        elif k == "flush" and cat[sid][t]:
            ops.append({"op": "flush", "stream": sid, "topic": t, "partition": rng.randrange(1, cat[sid][t] + 1)})
        elif k == "purge_topic":
            ops.append({"op": "purge_topic", "stream": sid, "topic": t})
        elif k == "purge_stream":
            ops.append({"op": "purge_stream", "stream": sid})
        elif k == "del_topic":
            ops.append({"op": "delete_topic", "stream": sid, "topic": t})
            del cat[sid][t]
        elif k == "del_stream":
            ops.append({"op": "delete_stream", "stream": sid})
            del cat[sid]
        elif k == "add_parts":
            n = rng.choice([1, 2])
            ops.append({"op": "create_partitions", "stream": sid, "topic": t, "n": n})
            cat[sid][t] += n
        elif k == "del_parts":
            n = rng.choice([1, 1, 2])
            ops.append({"op": "delete_partitions", "stream": sid, "topic": t, "n": n})
            cat[sid][t] = max(0, cat[sid][t] - n)
        elif k == "group":
            if rng.random() < 0.7:
                ops.append({"op": "create_group", "stream": sid, "topic": t, "name": fresh(), "id": rng.choice([1, 2])})
            else:
                ops.append({"op": "delete_group", "stream": sid, "topic": t, "group": rng.choice([1, 2])})
        elif k == "retention":
            ops.append({"op": "advance", "us": rng.choice([10_000, 50_000, 300_000])})
            ops.append({"op": "maintain"})
            audit()
        elif k == "restart":
            audit()
            ops.append({"op": "restart"})
            audit()
        elif k == "audit":
            audit()
        elif k == "refused":
            # requests that must be refused and must leave every figure as it was
            r = rng.randrange(5)
            audit()
            if r == 0:
                ops.append({"op": "create_topic", "stream": sid, "name": fresh(), "parts": rng.choice([1, 3]), "id": t})          # id taken, new name
            elif r == 1:
                ops.append({"op": "create_stream", "name": fresh(), "id": sid})                                                    # id taken, new name
            elif r == 2:
                ops.append({"op": "create_partitions", "stream": sid, "topic": 77, "n": 2})
            elif r == 3:
                ops.append({"op": "send", "stream": sid, "topic": t, "part": {"kind": "pid", "id": cat[sid][t] + 5}, "msgs": [{"id": 999_000 + len(ops), "len": 50}]})
            else:
                ops.append({"op": "create_group", "stream": sid, "topic": 88, "name": fresh()})
            audit()
    audit()
    ops.append({"op": "restart"})
    audit()
    return {"id": tid, "cfg": cfg, "ops": ops}


def audit_problems(a):
    """every reported figure against what is stored and against the sums over its children"""
    bad = []

    def eq(what, x, y):
        if x != y:
            bad.append("%s: %s reported, %s %s" % (what, x, y, "stored / summed"))

    st = a["stats"]
    eq("statistics: streams", st["streams"], len(a["streams"]))
    eq("statistics: topics", st["topics"], sum(len(s["topics"]) for s in a["streams"]))
    eq("statistics: partitions", st["partitions"], sum(len(t["parts"]) for s in a["streams"] for t in s["topics"]))
    eq("statistics: segments", st["segments"], sum(p["wb_segs"] for s in a["streams"] for t in s["topics"] for p in t["parts"]))
    eq("statistics: consumer groups", st["groups"], sum(t["groups"] for s in a["streams"] for t in s["topics"]))
    eq("statistics: messages", st["messages"], sum(s["msgs"] for s in a["streams"]))
    eq("statistics: size", st["size"], sum(s["size"] for s in a["streams"]))
    eq("stream list", a["listed"], [{"id": s["id"], "size": s["size"], "msgs": s["msgs"], "topics": s["topics_count"]} for s in a["streams"]])
    for s in a["streams"]:
        w = "stream %d" % s["id"]
        eq(w + " topics count", s["topics_count"], len(s["topics"]))
        eq(w + " messages", s["msgs"], sum(t["msgs"] for t in s["topics"]))
        eq(w + " size", s["size"], sum(t["size"] for t in s["topics"]))
        eq(w + " topic list", s["in_stream"], [{"id": t["id"], "size": t["size"], "msgs": t["msgs"], "parts": t["parts_count"]} for t in s["topics"]])
        for t in s["topics"]:
            w = "topic %d/%d" % (s["id"], t["id"])
            eq(w + " partitions count", t["parts_count"], len(t["parts"]))
            eq(w + " messages", t["msgs"], sum(p["msgs"] for p in t["parts"]))
            eq(w + " size", t["size"], sum(p["size"] for p in t["parts"]))
            for p in t["parts"]:
                w = "partition %d/%d/%d" % (s["id"], t["id"], p["id"])
                eq(w + " messages (full poll)", p["msgs"], p["polled"])
                eq(w + " segments", p["segs"], p["wb_segs"])
                if p["unsaved"] == 0:
                    eq(w + " size (bytes in its segment files, nothing unsaved)", p["size"], p["log_bytes"])
    return bad


def run_accounting(out, tier, seed):
    rng = util.Rng(seed * 16001 + 16)
    n = 24 if tier == "quick" else 300
    traces = [gen_accounting(rng, "C16-a%d" % i) for i in range(n)]
    impl = harness.run_traces("srv", traces, shards=min(8, n))
    audits, reported, restarts, refused, enc = 0, 0, 0, 0, 0
    for t in traces:
        ob = impl[t["id"]]
        enc += 1 if "enc_key" in t["cfg"] else 0
        if "crash" in ob or "init_err" in ob:
            out.violation("acct-crash-%s" % t["id"], {"kind": "impl-crash", "mode": "srv", "trace": t, "detail": str(ob)[-1500:]})
            continue
        outs = ob["outs"]
        prev = None     # (index, audit) when the previous op was an audit
        for i, (op, o) in enumerate(zip(t["ops"], outs)):
            problem = None
            if op["op"] == "audit":
                audits += 1
                if o.get("r") != "ok":
                    problem = ("the audit requests are not served", [str(o)[:300]])
                else:
                    bad = audit_problems(o)
                    if bad:
                        problem = ("a reported size or count differs from what is stored", bad[:6])
                    elif i >= 2 and t["ops"][i - 1]["op"] == "restart" and t["ops"][i - 2]["op"] == "audit" and outs[i - 1].get("r") == "ok" and outs[i - 2].get("r") == "ok":
                        restarts += 1
                        before = json.loads(json.dumps(outs[i - 2]))
                        after = json.loads(json.dumps(o))
                        # a graceful stop saves the buffers: a partition with unsaved messages writes them as one batch, whose 24-byte
                        # header is stored (and counted, as in Model/Part.v) from then on - at every level above it too
                        for s in before["streams"]:
                            for tp in s["topics"]:
                                for p in tp["parts"]:
                                    if p["unsaved"] > 0:
                                        for holder in (p, tp, s, before["stats"]):
                                            holder["size"] += 24
                                        for e in before["listed"]:
                                            if e["id"] == s["id"]:
                                                e["size"] += 24
                                        for e in s["in_stream"]:
                                            if e["id"] == tp["id"]:
                                                e["size"] += 24
                        for a in (before, after):
                            for s in a["streams"]:
                                for tp in s["topics"]:
                                    for p in tp["parts"]:
                                        p.pop("unsaved"), p.pop("log_bytes")
                        if before != after:
                            diff = [k for k in ("stats", "listed") if before[k] != after[k]] or ["streams"]
                            problem = ("a restart reports other figures than before it", ["differs in: %s" % diff, "before: %s" % json.dumps(before["stats"]), "after: %s" % json.dumps(after["stats"])])
                    elif i >= 2 and t["ops"][i - 2]["op"] == "audit" and outs[i - 1].get("r") != "ok" and t["ops"][i - 1]["op"] not in ("restart", "maintain", "advance") and outs[i - 2].get("r") == "ok":
                        refused += 1
                        if outs[i - 2] != o:
                            problem = ("a refused request changed reported figures", ["refused: %s -> %s" % (json.dumps(t["ops"][i - 1])[:200], json.dumps(outs[i - 1])[:120]),
                                                                                    "before: %s" % json.dumps(outs[i - 2]["stats"]), "after: %s" % json.dumps(o["stats"])])
            if problem:
                if reported < 4:
                    out.violation("acct-%s-%d" % (t["id"], i), {"kind": "spec-monitor", "mode": "srv", "trace": {"id": t["id"], "cfg": t["cfg"], "ops": t["ops"][:i + 1]},
                                                                "what": problem[0], "details": problem[1]})
                    reported += 1
                break
    return {"accounting_traces": n, "audits": audits, "restart_pairs_compared": restarts, "refused_requests_compared": refused, "traces_with_encryption": enc}


def run(out, tier, seed, gate):
    cov = partlib.check(out, tier, seed, "C16")
    acc = run_accounting(out, tier, seed)
    if isinstance(cov, dict):
        cov.update(acc)
    return cov


def replay(payload):
    if payload.get("trace", {}).get("id", "").startswith("C16-a"):
        t = payload["trace"]
        impl = harness.run_traces("srv", [t], shards=1)
        o = impl[t["id"]]
        last = o.get("outs", [{}])[-1]
        print(json.dumps(audit_problems(last) if last.get("r") == "ok" and "stats" in last else last)[:5000])
        return 0
    return partlib.replay(payload)
