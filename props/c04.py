"""C04 - crash images.  Phase 1 runs a workload on the real server and records every file's length after every operation.
Phase 2 re-runs each prefix of the workload and kills the server at a point inside the next operation: the files the operation
changed are cut back in write order (log before index, then consumer offset, then state log) - the file being written is
left at a torn length - and the real server is started on that image.  Observed: the start-up result, a full read, the
consumer offset, the offsets given to three new messages, a full read again, and once more after a clean restart.  The same
images are given to the Coq model (Model/Crash.v) and the specification monitor `crash_check` is evaluated in Coq."""
import json, re, time
from vlib import harness, util, coqrun, verdict
from vlib.coqterm import C, Raw, show
from props import partlib

ASSUMPTIONS = [
    "a crash image is: files written earlier in the operation complete, the file being written cut at any length, files written later untouched; writes to one file land in order (what a kernel may reorder between files with fsync off is not explored)",
    "workloads run under wait-confirmation; the images a no-wait persister or a reordering kernel can leave (index entry on disk, batch missing or torn) are added by cutting the log behind a complete index",
    "a torn state-log tail that makes start-up fail with an error counts as 'reported' (C11 covers the loader)",
]
PART = "streams/1/topics/1/partitions/1/"
NEW_IDS = [9001, 9002, 9003]


def gen(rng, tid):
    cfg = {"req": rng.choice([1, 1, 2, 3, 1000]), "seg_size": rng.choice([200, 400, 1000000]), "fsync": rng.random() < 0.3, "cache": rng.random() < 0.3,
           "idx_cache": rng.random() < 0.5}
    ops = [{"op": "create_stream", "name": "s1", "id": 1}, {"op": "create_topic", "stream": 1, "name": "t1", "parts": 1, "id": 1}]
    mid = 1
    stored = []
    for _ in range(rng.randrange(3, 9)):
        k = rng.random()
        if k < 0.6:
            n = rng.choice([1, 1, 2, 3, 5])
            ops.append({"op": "send", "stream": 1, "topic": 1, "part": {"kind": "pid", "id": 1}, "msgs": [{"id": mid + i, "len": rng.choice([1, 10, 40])} for i in range(n)]})
            mid += n
        elif k < 0.75:
            ops.append({"op": "flush", "stream": 1, "topic": 1, "partition": 1, "fsync": rng.random() < 0.5})
        elif k < 0.85:
            ops.append({"op": "save"})
        elif k < 0.95 and mid > 1:
            o = rng.randrange(0, mid - 1)
            ops.append({"op": "store_offset", "stream": 1, "topic": 1, "partition": 1, "offset": o, "consumer": {"kind": "consumer", "id": "c1"}})
        else:
            ops.append({"op": "create_group", "stream": 1, "topic": 1, "name": "g%d" % mid, "id": None})
    return {"id": tid, "cfg": cfg, "ops": ops}


def order_key(path):
    # write order inside one operation: segment by segment, log before index; then consumer offsets; then the state log
    if path.startswith(PART) and path.endswith(".log"):
        return (0, path[:-4], 0)
    if path.startswith(PART) and path.endswith(".index"):
        return (0, path[:-6], 1)
    if "offsets/" in path:
        return (1, path, 0)
    return (2, path, 0)


def torn_lengths(old, new):
    base = old or 0
    c = {base, base + 1, base + 8, base + 15, base + 16, base + 17, base + 24, (base + new) // 2, new - 1, new - 8, new - 16}
    return sorted(x for x in c if base <= x < new)


def images(before, after, op=None):
    """before/after: {path: len}.  The operation's file mutations in code order: first the creation of new files (log, then
    index), then the appends / rewrites (log, index, consumer offset, state log).  A crash image: the mutations before some
    point done, the one at that point not done (creation) or torn (write), the later ones not done."""
    changed = sorted([p for p in after if after[p] != before.get(p)], key=order_key)
    steps = [("create", p) for p in changed if before.get(p) is None] + [("write", p) for p in changed if after[p] != (before.get(p) or 0)]
    out = []
    for i, (kind, p) in enumerate(steps):
        state = dict(before)
        for kd, q in steps[:i]:
            state[q] = 0 if kd == "create" else after[q]
        variants = [None] if kind == "create" else torn_lengths(state.get(p) or 0, after[p])
        for t in variants:
            st = dict(state)
            if kind == "write":
                st[p] = t
            cuts = [{"path": q, "len": st.get(q)} for q in changed if st.get(q) != after[q]]
            # the file being written comes first (classification looks at it)
            cuts.sort(key=lambda c: c["path"] != p)
            out.append(("%s@%s" % (p.split("/")[-1], "uncreated" if kind == "create" else t), cuts))
    # no-wait confirmation (the log is written by a background task) or fsync off + power loss: the index entry can be on disk
    # while the batch it points to is not, or only partly
    for p in changed:
        if p.endswith(".log") and p[:-4] + ".index" in changed and after[p] != (before.get(p) or 0):
            for t in torn_lengths(before.get(p) or 0, after[p]):
                out.append(("%s@behind-index-%s" % (p.split("/")[-1], t), [{"path": p, "len": t}]))
    if op and op["op"] == "store_offset":
        # the offset file is rewritten in place (truncate, then 8 bytes): same length afterwards, so not in `changed`
        for q in after:
            if "offsets/consumers/" in q and before.get(q) == after[q]:
                changed = changed + [q]
                for t in (0, 1, 4, 7):
                    out.append(("%s@%s" % (q.split("/")[-1], t), [{"path": q, "len": t}]))
    if changed:
        out.append(("complete@%d" % len(changed), []))          # the process dies right after the operation's last write
    return out, changed


def unsaved_of(d):
    """messages still in a write buffer (the partition's own counter is a trigger, not a count)"""
    return sum((sg["acc"][2] if sg.get("acc") else 0) for sg in d.get("segs", []))


def phase1_trace(t):
    ops = []
    for o in t["ops"]:
        ops.append(o)
        ops.append({"op": "tree"})
        ops.append({"op": "dump", "stream": 1, "topic": 1, "partition": 1})
    return {"id": t["id"] + "-p1", "cfg": t["cfg"], "ops": ops}


PROBES = [
    {"op": "poll", "stream": 1, "topic": 1, "partition": 1, "kind": "offset", "value": 0, "count": 100000},
    {"op": "get_offset", "stream": 1, "topic": 1, "partition": 1, "consumer": {"kind": "consumer", "id": "c1"}},
    {"op": "send", "stream": 1, "topic": 1, "part": {"kind": "pid", "id": 1}, "msgs": [{"id": i, "len": 10} for i in NEW_IDS]},
    {"op": "poll", "stream": 1, "topic": 1, "partition": 1, "kind": "offset", "value": 0, "count": 100000},
    {"op": "flush", "stream": 1, "topic": 1, "partition": 1},
    {"op": "restart"},
    {"op": "poll", "stream": 1, "topic": 1, "partition": 1, "kind": "offset", "value": 0, "count": 100000},
]


def judge(t, k, name, cuts, outs, accepted_before, accepted_with, durable, stored_vals, touched_state):
    """Python rendering of the verdict (the Coq monitor crash_check decides; this produces the words for the replay)."""
    r = outs[0]
    if r.get("r") != "ok":
        if touched_state:
            return None, "reported"
        return "start-up on the crash image failed: %s" % json.dumps(r)[:200], None
    p1 = outs[1]
    if p1.get("r") != "ok":
        return "reading the partition after recovery failed: %s" % json.dumps(p1)[:200], None
    got = [(m["o"], m["id"]) for m in p1["msgs"]]
    n = len(got)
    if [o for o, _ in got] != list(range(n)):
        return "offsets after recovery are not 0..n-1: %s" % [o for o, _ in got], None
    if [i for _, i in got] != accepted_with[:n]:
        return "recovered content is not a prefix of the accepted messages: %s vs %s" % ([i for _, i in got], accepted_with), None
    if not all(m["pok"] for m in p1["msgs"]):
        return "a recovered message's payload is not what was sent", None
    if n < durable:
        return "only %d messages recovered although %d had been written to disk before the operation began" % (n, durable), None
    g = outs[2]
    if g.get("r") == "ok" and g.get("some") and g["stored"] not in stored_vals:
        return "consumer offset after recovery is %s, never stored (stored: %s)" % (g["stored"], stored_vals), None
    if g.get("r") != "ok":
        return "reading the consumer offset after recovery failed: %s" % json.dumps(g)[:160], None
    if outs[3].get("r") != "ok":
        return "sending after recovery failed: %s" % json.dumps(outs[3])[:160], None
    for idx in (4, 7):
        p = outs[idx]
        if p.get("r") != "ok":
            return "reading after the post-recovery sends failed (%s)" % json.dumps(p)[:160], None
        got2 = [(m["o"], m["id"]) for m in p["msgs"]]
        want = [(i, x) for i, x in enumerate(accepted_with[:n] + NEW_IDS)]
        if got2 != want:
            return "after recovery and three new messages%s the partition reads %s, expected %s" % (" and a clean restart" if idx == 7 else "", got2, want), None
    return None, "ok"


def run(out, tier, seed, gate):
    t0 = time.time()
    rng = util.Rng(seed * 40009 + 4)
    n = 10 if tier == "quick" else 120
    per_trace = 40 if tier == "quick" else 400
    work = [gen(rng, "C04-g%d" % i) for i in range(n)]
    p1 = harness.run_traces("srv", [phase1_trace(t) for t in work], shards=min(8, n))
    crash_traces, meta = [], {}
    stats = {"workloads": n, "images": 0, "by_file": {}, "reported_state_tail": 0, "recovered_lengths": {}, "ops_with_changes": 0}
    known, _ = verdict.known_findings()
    known = {k["cls"]: k["text"] for k in known if k["property"] == "C04"}
    for t in work:
        ob = p1[t["id"] + "-p1"]
        if "crash" in ob or "init_err" in ob:
            out.violation("phase1-" + t["id"], {"kind": "spec-monitor", "mode": "srv", "trace": t, "what": "the workload itself crashed the server", "detail": str(ob)[-800:]})
            continue
        outs = ob["outs"]
        sizes, dumps, accepted, stored_vals = [], [], [], []
        acc_after, stored_after = [], []
        for j, o in enumerate(t["ops"]):
            r, tr, dp = outs[3 * j], outs[3 * j + 1], outs[3 * j + 2]
            if o["op"] == "send" and r.get("r") == "ok":
                accepted = accepted + [m["id"] for m in o["msgs"]]
            if o["op"] == "store_offset" and r.get("r") == "ok":
                stored_vals = stored_vals + [o["offset"]]
            sizes.append({p: l for p, l in tr["files"]})
            dumps.append(dp)
            acc_after.append(list(accepted))
            stored_after.append(list(stored_vals))
        # per segment: the batches (messages, payload bytes) its files hold after each operation
        segs_after, exact_upto = [], len(t["ops"])
        cur_segs, saved_prev = {}, 0
        for j in range(len(t["ops"])):
            grown = []
            for pth, ln in sizes[j].items():
                if pth.startswith(PART) and pth.endswith(".log"):
                    old = sizes[j - 1].get(pth, 0) if j else 0
                    if ln > old:
                        grown.append((pth[:-4], ln - old))
                    cur_segs.setdefault(pth[:-4], [])
            d = dumps[j]
            saved = (d["cur"] + 1 - unsaved_of(d)) if (d.get("r") == "ok" and d.get("inc")) else 0
            if len(grown) == 1 and sizes[j].get(grown[0][0] + ".index", 0) - (sizes[j - 1].get(grown[0][0] + ".index", 0) if j else 0) == 16:
                cur_segs[grown[0][0]] = cur_segs[grown[0][0]] + [(saved - saved_prev, grown[0][1] - 24)]
            elif grown:
                exact_upto = min(exact_upto, j)
            saved_prev = saved
            segs_after.append({a: list(b) for a, b in cur_segs.items()})
        cands = []
        for k in range(2, len(t["ops"])):
            imgs, changed = images(sizes[k - 1], sizes[k], t["ops"][k])
            if changed:
                stats["ops_with_changes"] += 1
            for name, cuts in imgs:
                cands.append((k, name, cuts, changed))
        rng.shuffle(cands)
        for k, name, cuts, changed in cands[:per_trace]:
            d = dumps[k - 1]
            durable = 0
            if d.get("r") == "ok" and d.get("inc"):
                durable = d["cur"] + 1 - unsaved_of(d)
            tid = "%s-k%d-%s" % (t["id"], k, name)
            o = t["ops"][k]
            crash_traces.append({"id": tid, "cfg": t["cfg"], "ops": t["ops"][:k + 1] + [{"op": "crash", "cuts": cuts}] + PROBES})
            sv = stored_after[k] if o["op"] == "store_offset" else stored_after[k - 1]
            meta[tid] = {"t": t, "k": k, "name": name, "cuts": cuts, "before": acc_after[k - 1], "with": acc_after[k], "durable": durable,
                         "stored": sorted(set(stored_after[k])), "state": any(c["path"].startswith("state/") for c in cuts), "changed": changed,
                         "segs": segs_after[k] if k < exact_upto else None, "sizes": sizes[k]}
            stats["by_file"][name.split("@")[0].split(".")[-1]] = stats["by_file"].get(name.split("@")[0].split(".")[-1], 0) + 1
    stats["images"] = len(crash_traces)
    impl = harness.run_traces("srv", crash_traces, shards=min(12, max(1, len(crash_traces) // 4)))
    # the model's prediction of what each image exposes
    terms, term_ids = [], []
    for ct in crash_traces:
        m = meta[ct["id"]]
        if m["segs"] is None:
            continue
        cutmap = {c["path"]: c["len"] for c in m["cuts"]}
        per_seg, ok = [], True
        for seg, bs in sorted(m["segs"].items()):
            L = cutmap.get(seg + ".log", m["sizes"].get(seg + ".log"))
            I = cutmap.get(seg + ".index", m["sizes"].get(seg + ".index"))
            if L is None and I is None:
                continue
            if L is None or I is None:
                ok = False
                break
            per_seg.append("recover_render %s %d %d" % (show([(a, b) for a, b in bs]), L, I))
        if ok:
            terms.append("[%s]" % "; ".join(per_seg))
            term_ids.append(ct["id"])
    vals = coqrun.eval_terms("C04", "Base.Tactics Base.ListX Model.Crash", terms, shard_size=60) if terms else []
    predicted = {tid: sum(x[2] for x in v) for tid, v in zip(term_ids, vals)}
    # the partition model's prediction (Model/PartCrash.v crash_restart - the object of C04_partition_crash): for images that only
    # touch the files of the last segment, a = batches completely inside the cut log, b = complete index entries
    pterms, pterm_ids = [], []
    for ct in crash_traces:
        m = meta[ct["id"]]
        if m["segs"] is None or not m["segs"]:
            continue
        last = max(m["segs"])
        paths = {c["path"] for c in m["cuts"]}
        if not paths or not paths <= {last + ".log", last + ".index"} or any(c["len"] is None for c in m["cuts"]):
            continue
        cutmap = {c["path"]: c["len"] for c in m["cuts"]}
        L = cutmap.get(last + ".log", m["sizes"].get(last + ".log"))
        I = cutmap.get(last + ".index", m["sizes"].get(last + ".index"))
        if L is None or I is None:
            continue
        a, pos = 0, 0
        for _, payload in m["segs"][last]:
            if pos + 24 + payload <= L:
                a, pos = a + 1, pos + 24 + payload
            else:
                break
        b = I // 16
        prefix = json.loads(json.dumps(m["t"]["ops"][:m["k"] + 1]))
        for o in prefix:
            if o.get("consumer"):
                o["consumer"] = {"kind": "consumer", "id": 1}
        mops, _ = partlib.model_ops({"ops": prefix})
        cfgt = show(partlib.cfg_term(m["t"]["cfg"]))
        pterms.append("(let p' := crash_restart %s 1 %d %d (snd (pfinal (%s, part_new %s 1) %s)) in (nlen (part_all p'), abase p'))" % (cfgt, a, b, cfgt, cfgt, show(mops)))
        pterm_ids.append(ct["id"])
    pvals = coqrun.eval_terms("C04part", "Base.Tactics Base.ListX Model.Part Model.PartCrash Proofs.PartBasics Proofs.PartHistory", pterms, shard_size=40) if pterms else []
    part_predicted = {tid: (int(v[0]), int(v[1])) for tid, v in zip(pterm_ids, pvals)}
    stats["images_with_partition_model_prediction"] = len(part_predicted)
    stats["partition_model_matches"] = 0
    stats["images_with_exact_prediction"] = len(predicted)
    stats["exact_matches"] = 0
    reported = 0
    for ct in crash_traces:
        m = meta[ct["id"]]
        ob = impl[ct["id"]]
        k = m["k"]
        if "crash" in ob or "init_err" in ob:
            verdict_text = "the server panicked on the crash image: " + str(ob.get("crash", ob.get("init_err")))[:300].replace("\n", " ")
        else:
            outs = ob["outs"][k + 1:]
            verdict_text, how = judge(m["t"], k, m["name"], m["cuts"], outs, m["before"], m["with"], m["durable"], m["stored"], m["state"])
            if how == "reported":
                stats["reported_state_tail"] += 1
            elif how == "ok":
                nrec = len(outs[1]["msgs"])
                if ct["id"] in predicted:
                    if predicted[ct["id"]] != nrec:
                        if reported < 5:
                            out.violation("model-" + ct["id"].replace("/", "_"), {"kind": "correspondence", "mode": "srv", "trace": ct, "image": m["name"], "cuts": m["cuts"],
                                          "what": "the server exposes %d messages on this image, the model's recovery %d" % (nrec, predicted[ct["id"]]),
                                          "no_longer_checks": "corr_C04 (Model/Crash.v recover vs Segment::load_from_disk)"}, no_failing_input=True)
                            reported += 1
                    else:
                        stats["exact_matches"] += 1
                if ct["id"] in part_predicted:
                    pn, pnext = part_predicted[ct["id"]]
                    new_offs = [mm["o"] for mm in outs[4]["msgs"][nrec:]] if outs[4].get("r") == "ok" else None
                    if pn != nrec or (new_offs is not None and new_offs[:1] != [pnext]):
                        if reported < 5:
                            out.violation("partmodel-" + ct["id"].replace("/", "_"), {"kind": "correspondence", "mode": "srv", "trace": ct, "image": m["name"], "cuts": m["cuts"],
                                          "what": "the server exposes %d messages and numbers the next one %s on this image; Model/PartCrash.v crash_restart: %d messages, next offset %d" % (nrec, new_offs[:1] if new_offs else None, pn, pnext),
                                          "no_longer_checks": "corr_C04_part (Model/PartCrash.v crash_restart vs the server started on the crash image)"}, no_failing_input=True)
                            reported += 1
                    else:
                        stats["partition_model_matches"] += 1
                key = "before" if nrec == len(m["before"]) else ("with" if nrec == len(m["with"]) else "between")
                stats["recovered_lengths"][key] = stats["recovered_lengths"].get(key, 0) + 1
        if verdict_text:
            cls = classify(m)
            sym = re.sub(r"[\[\(].*", "", verdict_text)[:60]
            stats.setdefault("failures", {})
            stats["failures"][cls + " | " + sym] = stats["failures"].get(cls + " | " + sym, 0) + 1
            if cls in known:
                out.known(cls, known[cls])
            elif reported < 5:
                out.violation("image-" + ct["id"].replace("/", "_"), {"kind": "spec-monitor", "mode": "srv", "trace": ct, "what": verdict_text, "image": m["name"], "cuts": m["cuts"],
                                                                        "class": cls, "response": ob.get("outs", [])[k + 1:][:8]})
                reported += 1
    return {"traces_validated_against_impl": n + len(crash_traces), "evaluations": len(crash_traces), "distinct_nontrivial": len({util.digest(c["ops"]) for c in crash_traces}),
            "rule": "workloads of 3-8 operations (sends of 1-5 messages, flush, save, consumer offset stores, a journalled command) under messages_required_to_save 1/2/3/1000, segment size 200/400/large, fsync on/off; every operation that changed files x every file it changed x torn lengths {+0,+1,+8,+15,+16,+17,+24,mid,-16,-8,-1} and 'file absent' for created files",
            "stats": stats, "samples": [crash_traces[0]["ops"][-9:]] if crash_traces else [], "corr_wall_s": round(time.time() - t0, 2)}


def classify(m):
    """The recorded classes are identified by the shape of the image, not by the workload."""
    first = m["cuts"][0]
    p = first["path"]
    if p.endswith(".index") and first["len"] is not None and first["len"] % 16 != 0:
        return "torn-index-entry"
    if p.endswith(".index"):
        return "log-batch-without-index-entry"
    if p.endswith(".log"):
        return "torn-log-batch"
    if "offsets/" in p:
        return "torn-consumer-offset"
    return "torn-state-log"


def replay(payload):
    t = payload["trace"]
    impl = harness.run_traces("srv", [t], shards=1)
    print(json.dumps(impl[t["id"]])[:8000])
    return 0
