"""C06 - catalogue check (see props/catlib.py)."""
from props import catlib

ASSUMPTIONS = [
    "single TCP connection of the root user; names are abstract tokens in the model; message data is compared only through message counts in the listings",
    "HTTP transport is not exercised by this check",
]


def run(out, tier, seed, gate):
    return catlib.check(out, tier, seed, "C06")


def replay(payload):
    return catlib.replay(payload)
