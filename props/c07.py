"""C07 - partition-family check (see props/partlib.py) plus group lifecycle and isolation across streams / topics / transports."""
import json
from props import partlib

ASSUMPTIONS = [
    "single stream / topic / partition driven through the real TCP server with the SDK client; white-box dump via the SharedSystem handle",
    "clock pinned by the verif_hooks clock (deterministic timestamps); wait confirmation; message cache budget never reached (eviction only via explicit evict)",
    "u32 narrowing of positions/relative offsets is modelled; sizes stay far below 2^32 in the generated histories",
]


def group_lifecycle(rng, tid):
    """offsets of a consumer group end with the group; an individual consumer with the same number is a different key; a group created
    later under the same number starts without a stored offset"""
    g = rng.choice([1, 2, 7])
    a, b = rng.randrange(0, 9), rng.randrange(0, 9)
    cons = {"kind": "consumer", "id": g}
    grp = {"kind": "group", "id": g}
    base = {"stream": 1, "topic": 1, "partition": 1}
    ops = [{"op": "create_stream", "name": "s", "id": 1}, {"op": "create_topic", "stream": 1, "name": "t", "parts": 1, "id": 1},
           {"op": "send", "stream": 1, "topic": 1, "part": {"kind": "pid", "id": 1}, "msgs": [{"id": i, "len": 5} for i in range(1, 11)]},
           {"op": "create_group", "stream": 1, "topic": 1, "name": "first", "id": g},
           dict(base, op="store_offset", offset=a, consumer=cons), dict(base, op="store_offset", offset=b, consumer=grp)]
    expect = {}
    if rng.random() < 0.4:
        ops.append({"op": "restart"})
    ops.append({"op": "delete_group", "stream": 1, "topic": 1, "group": g})
    if rng.random() < 0.4:
        ops.append({"op": "restart"})
    ops.append(dict(base, op="get_offset", consumer=cons))
    expect[len(ops) - 1] = ("consumer", a)
    ops.append({"op": "create_group", "stream": 1, "topic": 1, "name": "second", "id": g})
    ops.append(dict(base, op="get_offset", consumer=grp))
    expect[len(ops) - 1] = ("group", None)
    ops.append(dict(base, op="get_offset", consumer=cons))
    expect[len(ops) - 1] = ("consumer", a)
    ops.append({"op": "restart"})
    ops.append(dict(base, op="get_offset", consumer=grp))
    expect[len(ops) - 1] = ("group", None)
    ops.append(dict(base, op="get_offset", consumer=cons))
    expect[len(ops) - 1] = ("consumer", a)
    return {"id": tid, "cfg": {"req": rng.choice([1, 1000]), "cache": False}, "ops": ops}, expect


def isolation(rng, tid):
    """offsets of individual consumers (numeric and named) in several streams / topics / partitions, written, read and deleted over the
    binary protocol and over HTTP: each is exactly what was last stored under that very key, whatever happens to the others"""
    ops = []
    for s in (1, 2):
        ops.append({"op": "create_stream", "name": "s%d" % s, "id": s})
        for t in (1, 2):
            ops.append({"op": "create_topic", "stream": s, "name": "t%d" % t, "parts": 2, "id": t})
            for p in (1, 2):
                ops.append({"op": "send", "stream": s, "topic": t, "part": {"kind": "pid", "id": p}, "msgs": [{"id": 100 * s + 10 * t + i, "len": 5} for i in range(1, 7)]})
    spec, expect = {}, {}
    consumers = [1, 2, "ca"]
    for _ in range(rng.randrange(25, 45)):
        key = (rng.choice([1, 2]), rng.choice([1, 2]), rng.choice([1, 2]), rng.choice(consumers))
        base = {"stream": key[0], "topic": key[1], "partition": key[2], "consumer": {"kind": "consumer", "id": key[3]}}
        if rng.random() < 0.5:
            base["c"] = "httproot"
        k = rng.choice(["store", "store", "get", "get", "delete", "restart"])
        if k == "store":
            v = rng.randrange(0, 6)
            ops.append(dict(base, op="store_offset", offset=v))
            spec[key] = v
        elif k == "get":
            ops.append(dict(base, op="get_offset"))
            expect[len(ops) - 1] = spec.get(key)
        elif k == "delete":
            ops.append(dict(base, op="delete_offset"))
            spec.pop(key, None)
        else:
            ops.append({"op": "restart"})
    for key in sorted(spec.keys() | {(s, t, p, c) for s in (1, 2) for t in (1, 2) for p in (1, 2) for c in consumers}, key=str):
        ops.append({"op": "get_offset", "stream": key[0], "topic": key[1], "partition": key[2], "consumer": {"kind": "consumer", "id": key[3]}})
        expect[len(ops) - 1] = spec.get(key)
    return {"id": tid, "cfg": {"req": rng.choice([1, 1000]), "cache": False}, "ops": ops}, expect


def run(out, tier, seed, gate):
    cov = partlib.check(out, tier, seed, "C07")
    from vlib import harness, util
    rng = util.Rng(seed * 70003 + 7)
    n = 8 if tier == "quick" else 80
    pairs = [group_lifecycle(rng, "C07-gl%d" % i) for i in range(n)]
    impl = harness.run_traces("srv", [t for t, _ in pairs], shards=min(4, n))
    reported = 0
    for t, expect in pairs:
        ob = impl[t["id"]]
        outs = ob.get("outs", [])
        for i, (kind, want) in sorted(expect.items()):
            o = outs[i] if i < len(outs) else {"r": "missing"}
            got = o.get("stored") if (o.get("r") == "ok" and o.get("some")) else None
            if "crash" in ob or o.get("r") != "ok" or got != want:
                if reported < 3:
                    out.violation("group-lifecycle-%s-%d" % (t["id"], i), {"kind": "spec-monitor", "mode": "srv", "trace": t, "response": o, "expected": want,
                                  "what": "after a consumer group was deleted (and one with the same number created), the stored offset of the %s with that number is %s, expected %s" % (kind, got, want)})
                    reported += 1
                break
    ni = 8 if tier == "quick" else 80
    pairs = [isolation(rng, "C07-iso%d" % i) for i in range(ni)]
    impl = harness.run_traces("srv", [t for t, _ in pairs], shards=min(4, ni))
    gets = 0
    for t, expect in pairs:
        ob = impl[t["id"]]
        outs = ob.get("outs", [])
        for i, want in sorted(expect.items()):
            o = outs[i] if i < len(outs) else {"r": "missing"}
            # over HTTP "nothing stored" is answered 404
            none = (o.get("r") == "ok" and not o.get("some")) or (t["ops"][i].get("c") == "httproot" and o.get("r") == "err" and o.get("http") == 404) \
                or (t["ops"][i].get("c") == "httproot" and o.get("name") in ("resource_not_found", "not_found"))
            got = o.get("stored") if (o.get("r") == "ok" and o.get("some")) else (None if none else "?")
            gets += 1
            if "crash" in ob or got != want:
                if reported < 3:
                    out.violation("isolation-%s-%d" % (t["id"], i), {"kind": "spec-monitor", "mode": "srv", "trace": {"id": t["id"], "cfg": t["cfg"], "ops": t["ops"][:i + 1]}, "response": o, "expected": want,
                                  "what": "the offset read for %s is %s, but the last value stored and not deleted under exactly that stream / topic / partition / consumer is %s" % (json.dumps(t["ops"][i]["consumer"]), got, want)})
                    reported += 1
                break
    if isinstance(cov, dict):
        cov["isolation_traces"] = ni
        cov["isolation_reads_checked"] = gets
    if isinstance(cov, dict):
        cov["group_lifecycle_traces"] = n
    return cov


def replay(payload):
    return partlib.replay(payload)
