"""Shared driver for the catalogue properties C05 / C06: histories of administrative commands (ids given or
omitted, addressing by number or by name, valid and invalid commands, deletions and re-creations, restarts) over the
real TCP server; every response and the full catalogue listing are compared with Model/Catalog.v; the listing taken
before a restart is compared with the one taken after it."""
import json
from vlib import coqrun, harness, util
from vlib.coqterm import C, show

IMPORTS = "Base.Tactics Base.ListX Model.Catalog"
NAMES = ["a", "b", "cc", "ddd", "e5", "f", "gg", "x" * 12]


def nm(s):
    """name token used by the model"""
    if s == "iggy":
        return 0
    return 1 + NAMES.index(s) if s in NAMES else 100 + sum(ord(c) * (i + 1) for i, c in enumerate(s))


class Gen:
    def __init__(self, rng, tid, profile):
        self.rng, self.tid, self.profile = rng, tid, profile
        self.ops, self.hops = [], []       # harness ops / model hops (None for observation-only ops)
        self.streams = {}                  # our rough picture: id -> {"name", "topics": {id: {"name","groups":{id:name}}}}
        self.users = {1: "iggy"}
        self.msg = 1

    def ident(self, known_id, known_name):
        r = self.rng.random()
        if r < 0.45:
            return known_id
        if r < 0.9:
            return known_name
        return self.rng.choice([77, "zz"])   # nonexistent

    def mident(self, v):
        return C("ById", v) if isinstance(v, int) else C("ByName", nm(v))

    def pick_stream(self):
        if not self.streams or self.rng.random() < 0.08:
            return self.rng.choice([77, "zz"]), None
        sid = self.rng.choice(sorted(self.streams))
        return self.ident(sid, self.streams[sid]["name"]), sid

    def pick_topic(self, sid):
        ts = self.streams[sid]["topics"] if sid in self.streams else {}
        if not ts or self.rng.random() < 0.08:
            return self.rng.choice([77, "zz"]), None
        tid = self.rng.choice(sorted(ts))
        return self.ident(tid, ts[tid]["name"]), tid

    def add(self, op, hop):
        # catalogue commands go through either transport: the binary TCP protocol or the HTTP API (separate handlers)
        if getattr(hop, "name", None) == "Cmd" and "c" not in op and self.rng.random() < self.profile.get("http", 0.3):
            op = dict(op, c="httproot")
        self.ops.append(op)
        self.hops.append(hop)

    def step(self):
        rng = self.rng
        w = dict(self.profile.get("weights", {}))
        base = {"create_stream": 10, "update_stream": 4, "delete_stream": 5, "purge_stream": 2, "create_topic": 12, "update_topic": 4,
                "delete_topic": 5, "purge_topic": 2, "create_partitions": 4, "delete_partitions": 4, "create_group": 7, "delete_group": 4,
                "create_user": 5, "update_user": 3, "delete_user": 3, "restart": 3, "catalog": 6, "send": 5}
        base.update(w)
        k = rng.choices(list(base), list(base.values()))[0]
        opt_id = lambda: rng.choice([None, None, None, rng.randrange(1, 7)])
        if k == "create_stream":
            i, name = opt_id(), rng.choice(NAMES)
            self.add({"op": k, "name": name, **({"id": i} if i else {})}, C("Cmd", C("CreateStream", C("Some", i) if i else None, nm(name))))
        elif k == "update_stream":
            s, sid = self.pick_stream()
            name = rng.choice(NAMES)
            self.add({"op": k, "stream": s, "name": name}, C("Cmd", C("UpdateStream", self.mident(s), nm(name))))
        elif k in ("delete_stream", "purge_stream"):
            s, sid = self.pick_stream()
            self.add({"op": k, "stream": s}, C("Cmd", C("DeleteStream" if k == "delete_stream" else "PurgeStream", self.mident(s))))
        elif k == "create_topic":
            s, sid = self.pick_stream()
            i, name, parts = opt_id(), rng.choice(NAMES), rng.choice([1, 1, 2, 3])
            self.add({"op": k, "stream": s, "name": name, "parts": parts, **({"id": i} if i else {})},
                     C("Cmd", C("CreateTopic", self.mident(s), C("Some", i) if i else None, nm(name), parts)))
        elif k in ("update_topic", "delete_topic", "purge_topic", "create_partitions", "delete_partitions", "create_group", "delete_group", "send"):
            s, sid = self.pick_stream()
            t, tid = self.pick_topic(sid) if sid else (rng.choice([1, "a"]), None)
            if k == "update_topic":
                name = rng.choice(NAMES)
                self.add({"op": k, "stream": s, "topic": t, "name": name}, C("Cmd", C("UpdateTopic", self.mident(s), self.mident(t), nm(name))))
            elif k in ("delete_topic", "purge_topic"):
                self.add({"op": k, "stream": s, "topic": t}, C("Cmd", C("DeleteTopic" if k == "delete_topic" else "PurgeTopic", self.mident(s), self.mident(t))))
            elif k in ("create_partitions", "delete_partitions"):
                n = rng.choice([1, 1, 2, 5])
                self.add({"op": k, "stream": s, "topic": t, "n": n}, C("Cmd", C("CreateParts" if k == "create_partitions" else "DeleteParts", self.mident(s), self.mident(t), n)))
            elif k == "create_group":
                i, name = opt_id(), rng.choice(NAMES)
                self.add({"op": k, "stream": s, "topic": t, "name": name, **({"id": i} if i else {})},
                         C("Cmd", C("CreateGroup", self.mident(s), self.mident(t), C("Some", i) if i else None, nm(name))))
            elif k == "delete_group":
                g = rng.choice([1, 1, 2, 3, rng.choice(NAMES)])
                self.add({"op": k, "stream": s, "topic": t, "group": g}, C("Cmd", C("DeleteGroup", self.mident(s), self.mident(t), self.mident(g))))
            else:
                self.add({"op": "send", "stream": s, "topic": t, "part": {"kind": "pid", "id": 1}, "msgs": [{"id": self.msg, "len": 3}]}, None)
                self.msg += 1
        elif k == "create_user":
            name = rng.choice(NAMES)
            self.add({"op": k, "user": "user-" + name, "password": "secret-" + name, "inactive": rng.random() < 0.2}, None)
            self.hops[-1] = C("Cmd", C("CreateUser", None, nm("user-" + name), not self.ops[-1]["inactive"]))
        elif k == "update_user":
            u = rng.choice([2, 3, "user-" + rng.choice(NAMES)])
            newname = rng.choice([None, "user-" + rng.choice(NAMES)])
            act = rng.choice([None, True, False])
            op = {"op": k, "uid": u}
            if newname:
                op["name"] = newname
            if act is not None:
                op["inactive"] = not act
            self.add(op, C("Cmd", C("UpdateUser", self.mident(u), C("Some", nm(newname)) if newname else None, C("Some", act) if act is not None else None)))
        elif k == "delete_user":
            u = rng.choice([1, 2, 3, 4, "user-" + rng.choice(NAMES)])
            self.add({"op": k, "uid": u}, C("Cmd", C("DeleteUser", self.mident(u))))
        elif k == "restart":
            self.add({"op": "catalog"}, C("Look"))
            self.add({"op": "restart"}, C("Restart"))
            self.add({"op": "catalog"}, C("Look"))
        else:
            self.add({"op": "catalog"}, C("Look"))

    def note(self, op, out):
        """keep the rough picture in sync with what the implementation answered (only to aim later commands)"""
        if out.get("r") != "ok":
            return

    def build(self, n):
        for _ in range(n):
            self.step()
        self.add({"op": "catalog"}, C("Look"))
        self.add({"op": "restart"}, C("Restart"))
        self.add({"op": "catalog"}, C("Look"))
        return {"id": self.tid, "cfg": {"req": 1000, "seg_size": 1000000, "cache": False}, "ops": self.ops, "hops": self.hops}


def gen_trace(rng, tid, profile):
    g = Gen(rng, tid, profile)
    # seed a little structure so that later commands have targets
    for name in rng.sample(NAMES[:5], 2):
        g.add({"op": "create_stream", "name": name}, C("Cmd", C("CreateStream", None, nm(name))))
        g.streams[len(g.streams) + 1] = {"name": name, "topics": {}}
        for tname in rng.sample(NAMES[:5], rng.choice([1, 2])):
            sid = len(g.streams)
            g.add({"op": "create_topic", "stream": name, "name": tname, "parts": 2},
                  C("Cmd", C("CreateTopic", C("ByName", nm(name)), None, nm(tname), 2)))
            g.streams[sid]["topics"][len(g.streams[sid]["topics"]) + 1] = {"name": tname, "groups": {}}
    return g.build(rng.randrange(profile.get("min_ops", 8), profile.get("max_ops", 40)))


NAME_EXISTS = {"stream_name_already_exists", "topic_name_already_exists", "consumer_group_name_already_exists", "user_already_exists"}
ID_EXISTS = {"stream_id_already_exists", "topic_id_already_exists", "consumer_group_id_already_exists"}
NOT_FOUND = {"stream_id_not_found", "stream_name_not_found", "topic_id_not_found", "topic_name_not_found", "consumer_group_id_not_found",
             "consumer_group_name_not_found", "resource_not_found", "invalid_identifier"}


def canon_res(op, o):
    if "crash" in o:
        return ("crash",)
    if o.get("r") == "ok":
        if op["op"] in ("create_stream", "create_topic", "create_group", "create_user"):
            return (0, o["id"])
        return (1, 0)
    n = o.get("name")
    if n in NAME_EXISTS:
        return (2, 0)
    if n in ID_EXISTS:
        return (3, 0)
    if n in NOT_FOUND:
        return (4, 0)
    return (5, 0, n)


def canon_catalog(o):
    """implementation listing -> the model's [view] shape (names as tokens)"""
    streams = []
    for s in o["streams"]:
        topics = [(t["id"], nm(t["name"]), t["parts_count"], [(g[0], nm(g[1])) for g in t["groups"]]) for t in s["topics"]]
        streams.append((s["id"], nm(s["name"]), topics))
    users = [(u["id"], nm(u["name"]), u["active"]) for u in o["users"]]
    return (streams, users)


def canon_view(v):
    streams, users = v
    return ([(s[0], s[1], [(t[0], t[1], t[2], [tuple(g) for g in t[3]]) for t in s[2]]) for s in streams], [tuple(u) for u in users])


def consistency(o):
    """listing-level facts of C06 that need no model: unique ids and names per scope, lookup by name = lookup by id,
    partition ids are 1..count, counts match"""
    bad = []
    sids = [s["id"] for s in o["streams"]]
    snames = [s["name"] for s in o["streams"]]
    if len(set(sids)) != len(sids) or len(set(snames)) != len(snames):
        bad.append("duplicate stream id or name")
    for s in o["streams"]:
        if s.get("by_name") != s["id"]:
            bad.append("stream %s: lookup by name gives %s" % (s["id"], s.get("by_name")))
        if s["topics_count"] != len(s["topics"]):
            bad.append("stream %s: topics_count %s but %d topics listed" % (s["id"], s["topics_count"], len(s["topics"])))
        tids = [t["id"] for t in s["topics"]]
        tnames = [t["name"] for t in s["topics"]]
        if len(set(tids)) != len(tids) or len(set(tnames)) != len(tnames):
            bad.append("stream %s: duplicate topic id or name" % s["id"])
        for t in s["topics"]:
            if t.get("by_name") != t["id"]:
                bad.append("topic %s/%s: lookup by name gives %s" % (s["id"], t["id"], t.get("by_name")))
            if t["parts"] != list(range(1, t["parts_count"] + 1)):
                bad.append("topic %s/%s: partitions %s for count %s" % (s["id"], t["id"], t["parts"], t["parts_count"]))
            gids = [g[0] for g in t["groups"]]
            gn = [g[1] for g in t["groups"]]
            if len(set(gids)) != len(gids) or len(set(gn)) != len(gn):
                bad.append("topic %s/%s: duplicate group id or name" % (s["id"], t["id"]))
            for gid, listed, detail in t.get("group_parts", []):
                if listed != t["parts_count"] or detail != t["parts_count"]:
                    bad.append("topic %s/%s: consumer group %s is listed over %s partitions (details: %s), the topic has %s" % (s["id"], t["id"], gid, listed, detail, t["parts_count"]))
    uids = [u["id"] for u in o["users"]]
    un = [u["name"] for u in o["users"]]
    if len(set(uids)) != len(uids) or len(set(un)) != len(un):
        bad.append("duplicate user id or name")
    return bad


def strip_counts(o):
    """what must be identical before and after a restart (message counts included: surviving topics keep their data)"""
    return json.loads(json.dumps({"streams": o["streams"], "users": o["users"]}))


def run_traces(tag, traces):
    impl = harness.run_traces("srv", [{k: v for k, v in t.items() if k not in ("hops", "memberships", "group_counts", "mops")} for t in traces], shards=min(8, max(1, len(traces))))
    terms = ["hrun_obs %s" % show([h for h in t["hops"] if h is not None]) for t in traces]
    vals = coqrun.eval_terms(tag, IMPORTS, terms, shard_size=20)
    return impl, vals


def check(out, tier, seed, prop):
    rng = util.Rng(seed * 50021 + int(prop[1:]))
    n = {"quick": 40, "thorough": 600}[tier]
    profile = {"C05": {"weights": {"restart": 8, "delete_stream": 8, "delete_topic": 8, "delete_group": 6, "delete_user": 6, "create_user": 8}, "max_ops": 36},
               "C06": {"weights": {"restart": 1, "update_stream": 8, "update_topic": 8, "delete_partitions": 7, "create_partitions": 6}, "max_ops": 44}}[prop]
    traces = corpus() + [gen_trace(rng, "%s-g%d" % (prop, i), profile) for i in range(n)]
    if prop == "C06":
        traces += [members_trace(rng, "C06-m%d" % i) for i in range(max(6, n // 5))]
    # the membership oracle is Model/Members.v (coherence proved in Proofs/MembersProofs.v): the expected number of groups of a
    # client (get_me) and of members of a group (get_group) are evaluated in Coq; the generator's own bookkeeping is a cross-check
    mtr = [t for t in traces if t.get("mops")]
    model_members_checked = 0
    if mtr:
        mvals = coqrun.eval_terms(prop + "mem", "Base.Tactics Base.ListX Model.Members", ["mtrace minit %s" % show(t["mops"]) for t in mtr], shard_size=4)
        for t, mv in zip(mtr, mvals):
            qidx = [i for i, o in enumerate(t["ops"]) if o["op"] in ("get_me", "get_group")]
            answers = [(x[1] if isinstance(x, tuple) and x[0] == "Some" else None) for x in mv]
            if len(answers) != len(qidx):
                raise RuntimeError("membership model: %d answers for %d queries" % (len(answers), len(qidx)))
            want = dict(zip(qidx, answers))
            gen_want = dict(t["memberships"] + t["group_counts"])
            if want != gen_want:
                raise RuntimeError("membership model and generator bookkeeping disagree in %s: %s vs %s" % (t["id"], want, gen_want))
            t["memberships"] = [(i, want[i]) for i in qidx if t["ops"][i]["op"] == "get_me"]
            t["group_counts"] = [(i, want[i]) for i in qidx if t["ops"][i]["op"] == "get_group"]
            model_members_checked += len(qidx)
    impl, vals = run_traces(prop, traces)
    reported = 0
    stats = {"responses": 0, "listings": 0, "restarts": 0, "disagreements": 0, "monitor": 0, "crashes": 0, "membership_answers_from_model": model_members_checked}
    hist = {}
    for t, v in zip(traces, vals):
        ob = impl[t["id"]]
        slim = {k: x for k, x in t.items() if k not in ("hops", "memberships", "group_counts", "mops")}
        if "crash" in ob or "init_err" in ob:
            stats["crashes"] += 1
            if reported < 3:
                out.violation("crash-%s" % t["id"], {"kind": "impl-crash", "mode": "srv", "trace": slim, "detail": str(ob)[-1500:],
                                                     "what": "the server process died or could not start from its own journal"})
                reported += 1
            continue
        outs = ob["outs"]
        m_res, m_views = v
        ri = vi = 0
        prev_listing = None
        bad = None
        for i, (op, hop) in enumerate(zip(t["ops"], t["hops"])):
            hist[op["op"]] = hist.get(op["op"], 0) + 1
            if i >= len(outs):
                bad = ("spec-monitor", i, "the trace stopped: %s" % json.dumps(outs[-1])[:300])
                break
            o = outs[i]
            if op["op"] == "restart":
                stats["restarts"] += 1
                ri += 1   # the model records a placeholder result for a restart
                if o.get("r") != "ok":
                    bad = ("spec-monitor", i, "restart failed: %s" % json.dumps(o)[:300])
                    break
                continue
            if op["op"] == "catalog":
                stats["listings"] += 1
                if o.get("r") != "ok":
                    bad = ("spec-monitor", i, "catalogue listing failed: %s" % json.dumps(o)[:300])
                    break
                cons = consistency(o)
                if cons and prop == "C06":
                    bad = ("spec-monitor", i, "listing inconsistent: %s" % cons[:3])
                    break
                if i > 0 and t["ops"][i - 1]["op"] == "restart" and prev_listing is not None and prop == "C05":
                    if strip_counts(prev_listing) != strip_counts(o):
                        bad = ("spec-monitor", i, "the catalogue after the restart differs from the one before it")
                        break
                prev_listing = o
                mv = canon_view(m_views[vi])
                vi += 1
                if canon_catalog(o) != mv:
                    bad = ("correspondence", i, {"impl": canon_catalog(o), "model": mv})
                    break
                continue
            if hop is None:
                continue
            stats["responses"] += 1
            want = tuple(m_res[ri])
            ri += 1
            got = canon_res(op, o)
            if got[:2] != want:
                # a valid command refused although the sequential-map specification accepts it is a C06 violation
                kind = "correspondence"
                if want[0] in (0, 1) and got[0] not in (0, 1):
                    kind = "spec-monitor"   # the specification performs this command, the server fails it
                bad = (kind, i, {"impl": got, "model": want, "what": "a valid command (accepted by the sequential-map specification) fails on the server" if kind == "spec-monitor" else "response differs"})
                break
        if not bad:
            for (i, want) in t.get("group_counts", []):
                if i < len(outs) and (outs[i].get("r") != "ok" or outs[i].get("members_count") != want):
                    bad = ("spec-monitor", i, "members of a consumer group: expected %d live members, server says %s" % (want, json.dumps(outs[i])[:300]))
                    break
        if not bad:
            for (i, want) in t.get("memberships", []):
                if i < len(outs) and (outs[i].get("r") != "ok" or outs[i].get("groups") != want):
                    bad = ("spec-monitor", i, "client membership count after deletions: expected %d, server says %s" % (want, json.dumps(outs[i])))
                    break
        if bad:
            kind, i, detail = bad
            if kind == "spec-monitor":
                stats["monitor"] += 1
            else:
                stats["disagreements"] += 1
            if reported < 3:
                payload = {"kind": kind, "mode": "srv", "trace": {"id": t["id"], "cfg": t["cfg"], "ops": t["ops"][:i + 1]}, "op_index": i, "detail": detail}
                if kind == "correspondence":
                    payload["no_longer_checks"] = "corr_%s_catalog (Model/Catalog.v vs the server's catalogue)" % prop
                out.violation("%s-%s" % ("mon" if kind == "spec-monitor" else "corr", t["id"]), payload, no_failing_input=(kind == "correspondence"))
                reported += 1
    # ---- administrative commands from several connections at the same time: the journal must replay to the catalogue the running
    # server ended up with (the order of the journal is the order of the effects)
    if prop == "C05":
        nc = 6 if tier == "quick" else 60
        ctraces = [{"id": "C05-conc%d" % i, "cfg": {"req": 1000, "seg_size": 1000000, "cache": False},
                    "ops": [{"op": "admin_stress", "clients": rng.choice([4, 6, 8]), "rounds": rng.choice([30, 60]), "seed": rng.randrange(1, 1 << 30)},
                            {"op": "catalog"}, {"op": "restart"}, {"op": "catalog"}]} for i in range(nc)]
        cimpl = harness.run_traces("srv", ctraces, shards=min(3, nc))
        stats["concurrent_admin_runs"] = nc
        for t in ctraces:
            ob = cimpl[t["id"]]
            if "crash" in ob or "init_err" in ob:
                out.violation("crash-%s" % t["id"], {"kind": "impl-crash", "mode": "srv", "trace": t, "detail": str(ob)[-1500:], "what": "the server process died under concurrent administrative commands"})
                continue
            o = ob["outs"]
            stats["concurrent_admin_commands"] = stats.get("concurrent_admin_commands", 0) + o[0].get("performed", 0)
            if o[2].get("r") != "ok" or o[1].get("r") != "ok" or o[3].get("r") != "ok" or strip_counts(o[1]) != strip_counts(o[3]):
                out.violation("conc-%s" % t["id"], {"kind": "spec-monitor", "mode": "srv", "trace": t, "before": o[1], "restart": o[2], "after": o[3],
                                                   "what": "after concurrent administrative commands the catalogue replayed from the journal differs from the one the running server had"})
    return {"traces_validated_against_impl": len(traces), "evaluations": len(traces), "distinct_nontrivial": len({util.digest(t["ops"]) for t in traces}),
            "rule": "seeded histories of administrative commands (ids omitted or given, by-name / by-number addressing, nonexistent targets, duplicate names and ids, delete and re-create) with catalogue listings and restarts; every response and every listing compared with Model/Catalog.v; listing before restart vs after restart",
            "op_histogram": hist, "stats": stats, "samples": [traces[len(corpus())]["ops"][:10]]}


def members_trace(rng, tid):
    """clients that are members of several consumer groups while streams / topics / groups are deleted (C06: deleting an
    entity removes the client memberships nested in it, never disturbs a sibling, never crashes)"""
    ops, hops, mops = [], [], []
    CL = {"c1": 1, "c2": 2, "c3": 3}
    def add(op, hop):
        ops.append(op); hops.append(hop)
        k = op["op"]
        gk = lambda: (op["stream"], op["topic"], op["group"])
        if k == "create_group":
            mops.append(C("inl", C("MCreateGroup", (op["stream"], op["topic"], op["id"]))))
        elif k == "login":
            mops.append(C("inl", C("MConnect", CL[op["c"]])))
        elif k == "join_group":
            mops.append(C("inl", C("MJoin", CL[op["c"]], gk())))
        elif k == "leave_group":
            mops.append(C("inl", C("MLeave", CL[op["c"]], gk())))
        elif k == "delete_group":
            mops.append(C("inl", C("MDeleteGroup", gk())))
        elif k == "delete_topic":
            mops.append(C("inl", C("MDeleteTopic", op["stream"], op["topic"])))
        elif k == "delete_stream":
            mops.append(C("inl", C("MDeleteStream", op["stream"])))
        elif k == "delete_user":
            mops.append(C("inl", C("MDropClient", CL["c3"])))       # c3 is the connection of that user
        elif k == "get_me":
            mops.append(C("inr", C("QClient", CL[op["c"]])))
        elif k == "get_group":
            mops.append(C("inr", C("QGroup", gk())))
    groups = []
    for sid, sname in ((1, "a"), (2, "b")):
        add({"op": "create_stream", "name": sname, "id": sid}, C("Cmd", C("CreateStream", C("Some", sid), nm(sname))))
        for tid_, tname in ((1, "cc"), (2, "ddd")):
            add({"op": "create_topic", "stream": sid, "name": tname, "parts": 2, "id": tid_}, C("Cmd", C("CreateTopic", C("ById", sid), C("Some", tid_), nm(tname), 2)))
            for gid, gname in ((1, "e5"), (2, "f")):
                add({"op": "create_group", "stream": sid, "topic": tid_, "name": gname, "id": gid}, C("Cmd", C("CreateGroup", C("ById", sid), C("ById", tid_), C("Some", gid), nm(gname))))
                groups.append((sid, tid_, gid))
    member = {"c1": set(), "c2": set(), "c3": set()}
    # c3 belongs to an ordinary user (allowed everything): deleting that user ends its session and its memberships
    add({"op": "create_user", "user": "member-user", "password": "member-secret", "perms": {"g": 1023, "streams": None}}, C("Cmd", C("CreateUser", None, nm("member-user"), True)))
    user_alive = [True]
    for c in member:
        if c == "c3":
            add({"op": "login", "c": c, "user": "member-user", "password": "member-secret"}, None)
        else:
            add({"op": "login", "c": c, "user": "iggy", "password": "iggy"}, None)
        for g in rng.sample(groups, rng.randrange(2, 6)):
            add({"op": "join_group", "c": c, "stream": g[0], "topic": g[1], "group": g[2]}, None)
            member[c].add(g)
    alive = set(groups)
    expect = []
    group_counts = []
    for _ in range(rng.randrange(3, 8)):
        k = rng.choice(["delete_group", "delete_group", "delete_topic", "delete_stream", "leave", "delete_user"])
        if not alive:
            break
        g = rng.choice(sorted(alive))
        if k == "delete_user":
            if user_alive[0]:
                add({"op": "delete_user", "uid": "member-user"}, C("Cmd", C("DeleteUser", C("ByName", nm("member-user")))))
                user_alive[0] = False
                member["c3"] = set()
        elif k == "delete_group":
            add({"op": "delete_group", "stream": g[0], "topic": g[1], "group": g[2]}, C("Cmd", C("DeleteGroup", C("ById", g[0]), C("ById", g[1]), C("ById", g[2]))))
            alive.discard(g)
        elif k == "delete_topic":
            add({"op": "delete_topic", "stream": g[0], "topic": g[1]}, C("Cmd", C("DeleteTopic", C("ById", g[0]), C("ById", g[1]))))
            alive = {x for x in alive if (x[0], x[1]) != (g[0], g[1])}
        elif k == "delete_stream":
            add({"op": "delete_stream", "stream": g[0]}, C("Cmd", C("DeleteStream", C("ById", g[0]))))
            alive = {x for x in alive if x[0] != g[0]}
        else:
            c = rng.choice(sorted(member))
            mine = sorted(member[c] & alive)
            if mine:
                h = rng.choice(mine)
                add({"op": "leave_group", "c": c, "stream": h[0], "topic": h[1], "group": h[2]}, None)
                member[c].discard(h)
        for c in sorted(member):
            if c == "c3" and not user_alive[0]:
                continue
            add({"op": "get_me", "c": c}, None)
            expect.append((len(ops) - 1, len(member[c] & alive)))
        # the groups' own view: exactly the live memberships
        for h in sorted(alive):
            add({"op": "get_group", "stream": h[0], "topic": h[1], "group": h[2]}, None)
            group_counts.append((len(ops) - 1, sum(1 for c in member if h in member[c])))
        add({"op": "catalog"}, C("Look"))
    add({"op": "catalog"}, C("Look"))
    add({"op": "restart"}, C("Restart"))
    add({"op": "catalog"}, C("Look"))
    return {"id": tid, "cfg": {"req": 1000, "seg_size": 1000000, "cache": False}, "ops": ops, "hops": hops, "memberships": expect, "group_counts": group_counts,
            "mops": mops}


def corpus():
    """witnesses of repaired defects (ids journalled as requested, not as assigned; user ids after restart)"""
    L, R = C("Look"), C("Restart")
    def tr(tid, pairs):
        return {"id": tid, "cfg": {"req": 1000, "seg_size": 1000000, "cache": False}, "ops": [p[0] for p in pairs], "hops": [p[1] for p in pairs]}
    cs = lambda name, i=None: ({"op": "create_stream", "name": name, **({"id": i} if i else {})}, C("Cmd", C("CreateStream", C("Some", i) if i else None, nm(name))))
    look = ({"op": "catalog"}, L)
    restart = ({"op": "restart"}, R)
    e8 = tr("corpus-E8-streams", [cs("a"), cs("b"), ({"op": "delete_stream", "stream": 1}, C("Cmd", C("DeleteStream", C("ById", 1)))), cs("cc"),
                                  ({"op": "create_topic", "stream": "cc", "name": "a", "parts": 1}, C("Cmd", C("CreateTopic", C("ByName", nm("cc")), None, nm("a"), 1))),
                                  ({"op": "send", "stream": "cc", "topic": "a", "part": {"kind": "pid", "id": 1}, "msgs": [{"id": 1, "len": 3}]}, None),
                                  look, restart, look])
    cu = lambda name: ({"op": "create_user", "user": name, "password": "secret-" + name}, C("Cmd", C("CreateUser", None, nm(name), True)))
    e13 = tr("corpus-E13-users", [cu("user-a"), cu("user-b"), ({"op": "delete_user", "uid": "user-b"}, C("Cmd", C("DeleteUser", C("ByName", nm("user-b"))))),
                                  look, restart, look, cu("user-cc"), look, restart, look])
    parts = tr("corpus-delete-partitions", [cs("a"), ({"op": "create_topic", "stream": 1, "name": "b", "parts": 2}, C("Cmd", C("CreateTopic", C("ById", 1), None, nm("b"), 2))),
                                           ({"op": "delete_partitions", "stream": 1, "topic": 1, "n": 5}, C("Cmd", C("DeleteParts", C("ById", 1), C("ById", 1), 5))),
                                           look, restart, look])
    return [e8, e13, parts]


def replay(payload):
    t = payload["trace"]
    impl = harness.run_traces("srv", [t], shards=1)
    print(json.dumps(impl[t["id"]])[:6000])
    return 0
