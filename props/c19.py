"""C19 - server-side encryption. Histories with encryption on / off and matching / mismatching keys across restarts:
polls must return the sent payloads, the catalogue and data must survive a restart with the same key, nothing sent
or journalled may appear in clear in any file, a wrong key (or encryption switched on over clear data) must be
reported as an error - never deliver data, never panic."""
import base64, json, time
from vlib import harness, util

ASSUMPTIONS = [
    "AES-256-GCM itself is trusted (aes-gcm crate); the model states the placement of encrypt/decrypt under the AEAD laws dec k (enc k n p) = p and k <> k' -> dec k' (enc k n p) = error",
    "'no clear text in any file' is decided by a byte search of the real files (a test)",
]
KEY1 = base64.b64encode(bytes(range(32))).decode()
KEY2 = base64.b64encode(bytes(range(1, 33))).decode()


def gen(rng, tid, mode):
    sname = "secret-stream-" + "".join(rng.choice("abcdefgh") for _ in range(8))
    tname = "secret-topic-" + "".join(rng.choice("abcdefgh") for _ in range(8))
    uname = "secret-user-" + "".join(rng.choice("abcdefgh") for _ in range(6))
    cfg = {"req": rng.choice([1, 3, 1000]), "seg_size": rng.choice([600, 1000000]), "cache": False}
    if mode != "off":
        cfg["enc_key"] = KEY1
    if mode == "badkey":
        # encryption is switched on but the configured key cannot be used: the server may refuse to start; if it serves, nothing may be in clear
        cfg["enc_key"] = rng.choice(["", base64.b64encode(bytes(range(31))).decode(), KEY1 + "\n", "not base64 at all!", base64.b64encode(bytes(range(33))).decode()])
    if mode == "corrupt":
        cfg["cache"] = False
    ops = [{"op": "create_stream", "name": sname, "id": 1}, {"op": "create_topic", "stream": 1, "name": tname, "parts": 1, "id": 1},
           {"op": "create_user", "user": uname, "password": "secret-password-xyz"}]
    sent = []
    mid = 1
    for _ in range(rng.randrange(2, 6)):
        msgs = []
        for _ in range(rng.randrange(1, 4)):
            ln = rng.choice([1, 11, 12, 13, 40, 64, 200, 1000])
            msgs.append({"id": mid, "len": ln, "hdr": rng.choice([0, 1])})
            sent.append((mid, ln))
            mid += 1
        ops.append({"op": "send", "stream": 1, "topic": 1, "part": {"kind": "pid", "id": 1}, "msgs": msgs})
        if rng.random() < 0.4:
            ops.append({"op": "flush", "stream": 1, "topic": 1, "partition": 1})
        if rng.random() < 0.5:
            ops.append({"op": "poll", "stream": 1, "topic": 1, "partition": 1, "kind": "offset", "value": 0, "count": 1000})
    ops.append({"op": "flush", "stream": 1, "topic": 1, "partition": 1})
    ops.append({"op": "poll", "stream": 1, "topic": 1, "partition": 1, "kind": "offset", "value": 0, "count": 1000})
    ops.append({"op": "catalog"})
    long_payloads = [[i, l] for i, l in sent if l >= 12]
    ops.append({"op": "grep", "needles": [sname, tname, uname, "secret-password-xyz"], "payloads": long_payloads})
    marks = {"sent": sent, "grep1": len(ops) - 1, "poll1": len(ops) - 3, "cat1": len(ops) - 2}
    if mode == "corrupt":
        # one stored payload byte is damaged while the server is down: the record no longer decrypts
        ops.append({"op": "restart"})
        ops.append({"op": "corrupt_last_log", "stream": 1, "topic": 1, "partition": 1})
        ops.append({"op": "restart"})
        ops.append({"op": "poll", "stream": 1, "topic": 1, "partition": 1, "kind": "offset", "value": 0, "count": 1000})
        marks.update({"corrupt_poll": len(ops) - 1, "restart_same": len(ops) - 2})
    elif mode == "same":
        ops.append({"op": "restart"})
        ops.append({"op": "poll", "stream": 1, "topic": 1, "partition": 1, "kind": "offset", "value": 0, "count": 1000})
        ops.append({"op": "catalog"})
        marks.update({"poll2": len(ops) - 2, "cat2": len(ops) - 1, "restart_same": len(ops) - 3})
    elif mode == "wrong":
        ops.append({"op": "restart", "cfg": {"enc_key": KEY2}, "go_on": True})
        ops.append({"op": "poll", "stream": 1, "topic": 1, "partition": 1, "kind": "offset", "value": 0, "count": 1000})
        marks.update({"restart_wrong": len(ops) - 2})
        # the attempt under the other key must not have damaged anything: the right key still restores catalogue and data
        ops.append({"op": "restart", "cfg": {"enc_key": KEY1}})
        ops.append({"op": "poll", "stream": 1, "topic": 1, "partition": 1, "kind": "offset", "value": 0, "count": 1000})
        ops.append({"op": "catalog"})
        marks.update({"poll2": len(ops) - 2, "cat2": len(ops) - 1, "restart_same": len(ops) - 3})
    elif mode == "off":
        ops.append({"op": "restart", "cfg": {"enc_key": KEY1}})     # encryption switched on over clear data
        ops.append({"op": "poll", "stream": 1, "topic": 1, "partition": 1, "kind": "offset", "value": 0, "count": 1000})
        marks.update({"restart_on": len(ops) - 2})
    return {"id": tid, "cfg": cfg, "ops": ops, "marks": marks, "mode": mode}


def run(out, tier, seed, gate):
    t0 = time.time()
    rng = util.Rng(seed * 70001 + 19)
    n = 24 if tier == "quick" else 300
    traces = [gen(rng, "C19-g%d" % i, ["same", "wrong", "off", "corrupt", "same", "wrong", "badkey"][i % 7]) for i in range(n)]
    impl = harness.run_traces("srv", [{a: b for a, b in t.items() if a not in ("marks", "mode")} for t in traces], shards=min(8, n))
    stats = {"polls_checked": 0, "messages_checked": 0, "leaks": 0, "clear_found_when_off": 0, "wrong_key_reported": 0, "files_searched": 0, "bytes_searched": 0}
    reported = 0
    for t in traces:
        ob = impl[t["id"]]
        slim = {a: b for a, b in t.items() if a not in ("marks", "mode")}
        m = t["marks"]

        def bad(name, what, extra=None):
            nonlocal reported
            if reported < 4:
                p = {"kind": "spec-monitor", "mode": "srv", "trace": slim, "what": what}
                p.update(extra or {})
                out.violation("%s-%s" % (name, t["id"]), p)
                reported += 1

        if t["mode"] == "badkey" and "init_err" in ob:
            stats["unusable_key_refused"] = stats.get("unusable_key_refused", 0) + 1
            continue
        if "crash" in ob:
            bad("crash", "the server panicked (an undecryptable record must be reported as an error)", {"detail": ob["crash"][-800:]})
            continue
        outs = ob["outs"]
        want = [(i, l) for i, l in m["sent"]]
        for key in ("poll1", "poll2"):
            if key in m and m[key] < len(outs):
                o = outs[m[key]]
                stats["polls_checked"] += 1
                got = [(x["id"], x["len"]) for x in o.get("msgs", [])] if o.get("r") == "ok" else None
                if got != want or not all(x["pok"] for x in o["msgs"]):  # the checksum is the one of the stored (encrypted) payload: not compared
                    bad("lossy", "a poll does not return exactly the payloads that were sent (%s)" % key, {"response": o, "sent": want})
                    break
                stats["messages_checked"] += len(want)
        if "restart_same" in m and m["restart_same"] < len(outs) and outs[m["restart_same"]].get("r") != "ok":
            bad("restart", "a restart with the same key fails", {"response": outs[m["restart_same"]]})
            continue
        if "corrupt_poll" in m and m["corrupt_poll"] < len(outs):
            o = outs[m["corrupt_poll"]]
            stats["corrupted_records"] = stats.get("corrupted_records", 0) + 1
            if o.get("r") == "ok":
                bad("undecryptable", "a stored record that no longer decrypts is not reported: the poll answers OK (with %d of %d messages)" % (len(o.get("msgs", [])), len(want)), {"response": o})
                continue
        if "cat2" in m and m["cat2"] < len(outs) and outs[m["cat1"]] != outs[m["cat2"]]:
            bad("catalog", "the catalogue after a restart with the same key differs", {"before": outs[m["cat1"]], "after": outs[m["cat2"]]})
        g = outs[m["grep1"]]
        stats["files_searched"] += g.get("files", 0)
        stats["bytes_searched"] += g.get("bytes", 0)
        if t["mode"] == "off":
            if g.get("hits"):
                stats["clear_found_when_off"] += 1      # sanity: the search does find clear text when encryption is off
        elif g.get("hits"):
            stats["leaks"] += 1
            bad("leak", "clear text of a payload or of journalled command content found in a file although encryption is on", {"hits": g["hits"]})
        for key in ("restart_wrong", "restart_on"):
            if key in m and m[key] < len(outs):
                r = outs[m[key]]
                if r.get("r") == "ok":
                    # the catalogue loaded under the other key: then no poll may deliver data
                    p = outs[m[key] + 1] if m[key] + 1 < len(outs) else {}
                    if p.get("r") == "ok" and p.get("msgs"):
                        bad("wrongkey", "data written under one key / in clear is delivered under another key", {"response": p})
                else:
                    stats["wrong_key_reported"] += 1
    return {"traces_validated_against_impl": n, "evaluations": n, "distinct_nontrivial": len({util.digest(t["ops"]) for t in traces}),
            "rule": "histories with encryption on (same key across restart / different key after restart) and off (encryption switched on over clear data); payload lengths 1..1000 incl. the 12-byte nonce boundary; byte search for every payload of 12+ bytes and every name / password journalled",
            "stats": stats, "samples": [traces[0]["ops"][:6]], "corr_wall_s": round(time.time() - t0, 2)}


def replay(payload):
    t = payload["trace"]
    impl = harness.run_traces("srv", [t], shards=1)
    print(json.dumps(impl[t["id"]])[:5000])
    return 0
