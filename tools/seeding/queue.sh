#!/bin/bash
# sequential job runner: executes the lines of /tmp/sw/queue.txt one after another (new lines may be appended while it runs)
cd /verif
n=0
while true; do
  total=$(wc -l < /tmp/sw/queue.txt)
  if [ "$n" -lt "$total" ]; then
    n=$((n+1))
    cmd=$(sed -n "${n}p" /tmp/sw/queue.txt)
    echo "[$(date +%H:%M:%S)] START $n: $cmd" >> /tmp/sw/queue.log
    bash -c "$cmd" >> /tmp/sw/queue.out 2>&1
    echo "[$(date +%H:%M:%S)] END $n exit $?" >> /tmp/sw/queue.log
  else
    [ -f /tmp/sw/queue.stop ] && exit 0
    sleep 10
  fi
done
