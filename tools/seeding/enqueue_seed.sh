#!/bin/bash
# usage: enqueue_seed.sh <prop> <A|B> <name> <checks...>   - after confirm_seed.sh finished
P=$1; X=$2; NAME=$3; shift 3
L=/tmp/sw/$P/confirm_$X.log
R=$(grep "^RESULT" $L | tail -1)
echo "$P $X: $R"
case "$R" in
  "RESULT without=0 with=0 "*) echo "NOT KEPT: demo does not fail with the change"; exit 1;;
  "RESULT without=0 with="*"suite=0") cp $L /tmp/sw/$P/out/$X/confirm.log; echo "python3 tools/seed_eval.py /tmp/sw/$P/out/$X $NAME $*" >> /tmp/sw/queue.txt; echo queued;;
  "RESULT without=0 with="*"suite=1") echo "suite regression - inspect"; grep REGRESSION $L;;
  *) echo "not confirmed";;
esac
