#!/bin/bash
# usage: run_suite.sh <worktree>   - runs the pinned suite of iggy in that worktree and lists regressions
# (tests of the pinned 808-test baseline that do not pass). Exit 0 = no regression.
cd "$1" || exit 2
export CARGO_NET_OFFLINE=true
cargo nextest run --workspace --no-fail-fast --tool-config-file pb:/w/lib/nextest.toml --profile pb --test-threads 8 --offline > "$1/target/suite.log" 2>&1
python3 - "$1" <<'PY'
import json,sys,xml.etree.ElementTree as ET,os
wt=sys.argv[1]
b=json.load(open('/root/.vp/BASELINE.json'))
j=os.path.join(wt,'target/nextest/pb/junit.xml')
if not os.path.exists(j):
    print("no junit.xml - build failed? see", wt+"/target/suite.log"); sys.exit(2)
passed=set()
for ts in ET.parse(j).getroot().iter('testsuite'):
    for tc in ts.iter('testcase'):
        ok = tc.find('failure') is None and tc.find('error') is None and tc.find('skipped') is None
        name = ts.get('name')+'::'+tc.get('name')
        if ok: passed.add(name)
missing=[t for t in b['stable_pass'] if t not in passed]
print("baseline tests:",len(b['stable_pass']),"passed now:",len(b['stable_pass'])-len(missing))
for m in missing: print("REGRESSION", m)
sys.exit(1 if missing else 0)
PY
