#!/bin/bash
# usage: recheck_flaky.sh <prop> <X> <wt>  - re-runs the bench rate limiter test alone with the change applied
P=$1; X=$2; WT=$3
cd $WT && git checkout -q -- . && git clean -fdq -e target && git apply /tmp/sw/$P/out/$X/patch.diff && \
CARGO_NET_OFFLINE=true cargo test --offline -p bench rate_limiter > /tmp/sw/$P/flaky_$X.log 2>&1; R=$?
git checkout -q -- . ; echo "RESULT flaky rerun $P $X exit $R" >> /tmp/sw/$P/flaky_$X.log
