#!/bin/bash
# usage: confirm_seed.sh <prop> <A|B>  - confirms a delivered seeded change in the agent's scratch worktree
P=$1; X=$2; WT=${WT_OVERRIDE:-/tmp/sw/$P/wt}; OUT=/tmp/sw/$P/out/$X; LOG=/tmp/sw/$P/confirm_$X.log
exec > $LOG 2>&1
cd $WT || exit 2
git checkout -q -- . ; git clean -fdq -e target
export CARGO_NET_OFFLINE=true
CMD=$(cat $OUT/demo_cmd.txt | head -1)
echo "== demo without the change: $CMD"
git apply $OUT/demo.diff || { echo "RESULT demo.diff does not apply"; exit 1; }
( eval "$CMD" ) > $WT/target/demo_without.log 2>&1; W=$?
echo "demo_without exit $W"
git apply $OUT/patch.diff || { echo "RESULT patch.diff does not apply"; exit 1; }
( eval "$CMD" ) > $WT/target/demo_with.log 2>&1; V=$?
echo "demo_with exit $V"
grep -E "test result|panicked|FAILED|failed" $WT/target/demo_with.log | head -5
# the pinned suite with the change (without the demonstration)
git apply -R $OUT/demo.diff
/tmp/sw/run_suite.sh $WT; S=$?
echo "suite exit $S"
git checkout -q -- . ; git clean -fdq -e target
echo "RESULT without=$W with=$V suite=$S"
