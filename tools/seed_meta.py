#!/usr/bin/env python3
"""Adds to /verif/seeded/<name>/meta.json what the verifier itself ran to confirm the seeded change (from confirm.log)."""
import json, os, re, sys, glob
for d in sorted(glob.glob("/verif/seeded/*")):
    cl, mj = os.path.join(d, "confirm.log"), os.path.join(d, "meta.json")
    if not (os.path.exists(cl) and os.path.exists(mj)):
        continue
    m = json.load(open(mj))
    log = open(cl).read()
    r = re.search(r"RESULT without=(\d+) with=(\d+) suite=(\d+)", log)
    cmd = open(os.path.join(d, "demo_cmd.txt")).read().strip() if os.path.exists(os.path.join(d, "demo_cmd.txt")) else None
    regs = re.findall(r"REGRESSION (\S+)", log)
    m["confirmed_in_scratch_worktree"] = {
        "ran": ["git apply demo.diff; %s  (must pass)" % cmd, "git apply patch.diff; %s  (must fail)" % cmd,
                "git apply -R demo.diff; /tmp/sw/run_suite.sh <worktree>  (pinned suite: cargo nextest run --workspace ... compared with BASELINE.json stable_pass)"],
        "demo_exit_without_change": int(r.group(1)) if r else None,
        "demo_exit_with_change": int(r.group(2)) if r else None,
        "pinned_suite_regressions": regs,
    }
    extra = os.path.join(d, "flaky.log")
    if regs and os.path.exists(extra):
        m["confirmed_in_scratch_worktree"]["note"] = ("the only regression is a wall-clock assertion of the bench crate that fails under machine load; re-run alone with the change applied: "
                                                      + ("passed" if "exit 0" in open(extra).read().split("RESULT")[-1] else "see flaky.log"))
    json.dump(m, open(mj, "w"), indent=1)
    print(os.path.basename(d), m["confirmed_in_scratch_worktree"]["demo_exit_without_change"], m["confirmed_in_scratch_worktree"]["demo_exit_with_change"], regs)
