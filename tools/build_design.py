#!/usr/bin/env python3
"""Splices docs/asbuilt.src.md (with the current catch matrix) into DESIGN.md as chapter 0."""
import subprocess, re
src = open("/verif/docs/asbuilt.src.md").read()
matrix = subprocess.run(["python3", "/verif/tools/catch_matrix.py"], capture_output=True, text=True).stdout
src = src.replace("@@MATRIX@@", matrix.strip())
d = open("/verif/DESIGN.md").read()
SEP = "---------------------------------------------------------------------------------------------------\n"
if "## 0. As built" in d:
    a = d.index("## 0. As built")
    b = d.index("## 1. What is being built")
    d = d[:a] + src.rstrip() + "\n\n" + SEP + "\n" + d[b:]
else:
    b = d.index("## 1. What is being built")
    d = d[:b] + src.rstrip() + "\n\n" + SEP + "\n" + d[b:]
d = re.sub(r"Status: design only \(no framework code yet\)\.", "Status: built (chapter 0 records what exists and where it deviates from the design below).", d)
d = d.replace("Contents\n\n1. What is being built, in one page", "Contents\n\n0. As built: what exists, deviations, what is proved per property, defects found, corrected alarms, seeded-change catch matrix\n1. What is being built, in one page")
open("/verif/DESIGN.md", "w").write(d)
print("DESIGN.md updated:", len(d.splitlines()), "lines")
