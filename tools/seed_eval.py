#!/usr/bin/env python3
"""seed_eval.py <src_dir> <name> <prop> [<prop> ...]
Copies a seeded mutation (patch.diff, demo.md, meta.json) to /verif/seeded/<name>/, applies the patch to /repo, runs the quick
check of each listed property, restores /repo, and records in /verif/seeded/<name>/result.json which checks caught it."""
import json, os, shutil, subprocess, sys, time
src, name, props = sys.argv[1], sys.argv[2], sys.argv[3:]
dst = os.path.join("/verif/seeded", name)
os.makedirs(dst, exist_ok=True)
for f in ("patch.diff", "demo.md", "meta.json", "demo.diff", "demo_cmd.txt", "confirm.log", "flaky.log"):
    if os.path.exists(os.path.join(src, f)) and os.path.realpath(src) != os.path.realpath(dst):
        shutil.copy(os.path.join(src, f), os.path.join(dst, f))
assert subprocess.run(["git", "-C", "/repo", "status", "--porcelain"], capture_output=True, text=True).stdout.strip() == "", "/repo not clean"
r = subprocess.run(["git", "-C", "/repo", "apply", os.path.join(dst, "patch.diff")], capture_output=True, text=True)
if r.returncode != 0:
    print("patch does not apply:", r.stderr)
    sys.exit(2)
res = {"name": name, "checks": {}}
# the evidence files describe runs on the unchanged tree: keep them out of the way while the tree is changed
EV, EVBAK = "/verif/evidence", "/verif/build/evidence.clean"
if os.path.isdir(EV) and not os.path.isdir(EVBAK):
    shutil.copytree(EV, EVBAK)
try:
    for p in props:
        t0 = time.time()
        env = dict(os.environ, VERIF_SEED=os.environ.get("VERIF_SEED", "1"))
        q = subprocess.run(["./check", p, "--tier", os.environ.get("SEED_TIER", "quick")], cwd="/verif", capture_output=True, text=True, env=env)
        lines = [l for l in q.stdout.splitlines() if l.startswith("VIOLATION") or l.startswith("KNOWN-FINDING")]
        what = []
        for l in lines:
            if l.startswith("VIOLATION") and "replay=" in l:
                path = l.split("replay=")[1].split()[0]
                try:
                    what.append(json.load(open(path)).get("what", json.load(open(path)).get("kind", ""))[:300])
                except Exception:
                    pass
        res["checks"][p] = {"exit": q.returncode, "lines": lines[:6], "what": what[:3], "wall_s": round(time.time() - t0, 1)}
        print(p, "exit", q.returncode, lines[:2], what[:1])
finally:
    subprocess.run(["git", "-C", "/repo", "checkout", "--", "."])
    if os.path.isdir(EVBAK):
        shutil.rmtree(EV, ignore_errors=True)
        shutil.move(EVBAK, EV)
res["detected_by"] = [p for p, v in res["checks"].items() if v["exit"] != 0]
json.dump(res, open(os.path.join(dst, "result.json"), "w"), indent=1)
print("detected_by", res["detected_by"])
