#!/usr/bin/env python3
"""Prints the seeded-change catch matrix (markdown) from /verif/seeded/*/{meta,result}.json."""
import json, os, glob
NOTES = {
 "C11-m1": "strengthened: failed appends are now injected (journal path is a directory for one call)",
 "C05-m2": "strengthened: catalogue commands now also go through the HTTP API",
 "C09-m1": "strengthened: revocation rounds and narrow grants on an open session",
 "C13-m1": "strengthened: frames that decode but fail validation must change nothing",
 "C13-m2": "strengthened: optional fields of user commands end to end (was caught by C10 only)",
 "C08-m2": "strengthened: same-numbered group in a second topic (was caught by C06 only)",
 "C04-m1": "strengthened: images with the index ahead of the log (no-wait / reordering)",
 "C10-m1": "strengthened: password changes through the HTTP API + byte search + login after restart",
 "C10-m2": "strengthened: token lifetime across a restart",
 "C15-m1": "strengthened: a second topic with data in the same stream",
 "C19-m1": "strengthened: a stored payload byte is damaged while the server is down; the poll must report it",
 "C19-m2": "strengthened: the restart with the same key must itself succeed (the harness no longer keeps serving from the old instance after a failed start)",
 "C03-m3": "strengthened: restarts with the index files removed (rebuilt from the logs at start-up)",
 "C05-m4": "strengthened: administrative commands from several connections at once, then restart",
 "C06-m3": "strengthened (in C07): a group's offsets end with the group; same-numbered consumer and re-created group",
 "C07-m4": "strengthened (in C08): manual commit without naming the partition after a poll",
 "C08-m3": "strengthened: restarts inside group histories",
 "C08-m4": "strengthened: the group addressed by name as well as by number",
 "C09-m3": "strengthened: the permission record in force (also 'none') must survive a restart",
 "C13-m3": "strengthened: every read request over the binary protocol and over HTTP/JSON must give equal answers, group details equal to the members (was caught by C06/C08 only)",
 "C13-m4": "strengthened: messages carrying every header kind with boundary-length keys and values, written and read over both transports",
 "C16-m3": "strengthened: accounting audit over whole catalogues, also with server-side encryption (sizes against the bytes in the segment files, before / after a restart)",
 "C16-m4": "strengthened: refused requests (id taken, missing topic / partition) must leave every figure as it was; segment count against the segments that exist",
 "C17-m3": "strengthened: the routing monitor now also runs on the whole server, with partition additions / removals and restarts",
 "C17-m4": "strengthened: size-limited topics - sends refused because the topic is full must not move the rotation",
 "C18-m4": "strengthened: id time-to-live configured as none / 0 / unlimited",
 "C19-m3": "strengthened: encryption switched on with an unusable key - the server may refuse to start, but may not serve in clear",
 "C19-m4": "strengthened: after a start attempt under another key, the right key must still restore catalogue and data",
 "C13-m5": "strengthened: nested permission records (several streams with several topics) over both transports and by update; C11: every journalled command kind decodes back to the same command",
 "C13-m6": "strengthened (in C11): every kind of journalled command, with optional fields and nested records, must decode and encode back to the same command and code (was caught by C05 only)",
 "C17-m6": "strengthened: a share of the sends through the HTTP API (was caught by C13 and C01 only)",
 "C05-m6": "caught by C10 (a token created before a restart must still log in after it)",
 "C10-m4": "strengthened: an administrator changes another user's password, then a restart (journal replay must change that user's, not the issuer's); get_me made observable by granting read_servers",
 "C09-m4": "strengthened: requests after logout on the same connection must be unauthenticated",
 "C12-m2": "strengthened: producers poll from their own cursor right after each send (no-wait window)",
 "C06-m5": "strengthened (in C06): every listed consumer group must span the topic's partitions, in the listing and in its details (was caught by C08 only)",
 "C06-m6": "strengthened (in C08): the same-numbered group also lives in the same-numbered topic of a second stream (was caught by C06 only)",
}
rows = []
for d in sorted(glob.glob("/verif/seeded/*")):
    name = os.path.basename(d)
    try:
        meta = json.load(open(os.path.join(d, "meta.json")))
        res = json.load(open(os.path.join(d, "result.json")))
    except Exception:
        continue
    mech = (meta.get("mechanism") or "").replace("|", "/").replace("\n", " ")
    if len(mech) > 170:
        mech = mech[:167] + "..."
    rows.append("| %s | %s | %s | %s | %s |" % (name, ", ".join(meta.get("files", []))[:80].replace("server/src/", "").replace("sdk/src/", "sdk:"), mech,
                                            ", ".join(res.get("detected_by", [])) or "**missed**", NOTES.get(name, "")))
print("| seeded change | file | what was changed | caught by (quick tier) | note |\n|---|---|---|---|---|")
print("\n".join(rows))
caught = sum(1 for r in rows if "**missed**" not in r)
print("\n%d seeded changes, %d caught by the quick tier of at least one check." % (len(rows), caught))
