#!/usr/bin/env python3
"""Regenerates MANIFEST.json from the table below (kept in one place so that it stays valid)."""
import json, os, subprocess
ROOT = os.path.dirname(os.path.dirname(os.path.abspath(__file__)))
props = [json.loads(l) for l in open(os.path.join(ROOT, "properties.jsonl"))]
NOTE = ("Trusted: Coq 8.16.1 kernel (coqchk in the thorough tier); hand-written Gallina model of the anchored code; the tie to the source is the "
        "correspondence check run on every invocation (Rust harness linking /repo's working tree + Python differ; model evaluated inside Coq, no extraction); "
        "oracle values (hashes) read back from the implementation; pinned clock via the verif_hooks feature. No axioms.")
TECH = "Coq theorems over an executable model + differential correspondence check and spec monitor against the real code"
PART_NOTE = (" Proof status: per-operation theorems hold for every state (no invariant needed); the history-level refinement statement (model run accepted by the "
             "spec monitor PartSpec.mon_step for all histories) is stated as Cxx_full and is checked on every run by evaluating model_check on the generated "
             "histories (a test), its proof is in progress - see DESIGN.md.")
claimed = {
 "C01": ("Theorems for every state: an accepted send appends exactly the kept messages with consecutive offsets after the cursor and sets the cursor to the last; refusals/duplicates consume nothing; flush/save/retention/eviction never move the cursor; restart keeps all messages. Correspondence: histories of send/flush/save/restart/purge/retention on the real server vs Model/Part.v incl. white-box segment table; spec monitor on the implementation's observations." + PART_NOTE, "6 (C01)"),
 "C02": ("Theorems: soundness of every segment read (disk, buffer, mixed; both index variants): only stored messages inside the requested range. Exactness of every poll is decided per run by the spec monitor (slice of the abstract log) on the implementation's observations and by model-vs-implementation comparison of every poll (offset/timestamp/first/last/next, boundary-directed counts up to 2^32-1)." + PART_NOTE, "6 (C02)"),
 "C03": ("Theorems for every state: restart (graceful shutdown + load) preserves every stored message with offsets and content, and the stored consumer offsets; load after a complete flush alone reproduces the messages. Cursor/next offset across restart: correspondence + monitor (restart-heavy histories incl. empty trailing segment, retention before restart)." + PART_NOTE, "6 (C03)"),
 "C07": ("Theorems: get-after-store, isolation between (kind,id) pairs incl. same number for consumer and group, bound offset <= current, delete, durability across restart, removal by purge. Correspondence: store/get/delete/poll-next/auto-commit by overlapping consumers and groups with restarts and purges; monitor checks every get and next-poll." + PART_NOTE, "6 (C07)"),
 "C14": ("Theorems: a maintenance pass never moves the cursor; a segment selected by expiry is closed and its newest message is older than the expiry; survivors are untouched segments. Correspondence with pinned clock: clock advances, expiry updates, maintenance passes, restarts; monitor: only expired messages disappear (expiry-only topics), polls below the earliest retained offset start at it." + PART_NOTE, "6 (C14)"),
 "C15": ("Theorems: a send is refused with topic-full iff the topic has a custom limit, size >= limit and delete-oldest is off, and a refusal changes nothing; maintenance never moves the cursor. Correspondence: limits of 1-3 segments, both delete-oldest settings, sends / passes / limit updates vs the model (gate decision, which segment a pass removes, sizes).", "6 (C15)"),
 "C16": ("Theorem: per accepted send the counters grow by exactly the kept messages and their stored size (+24 per written batch), refusals and dropped duplicates add nothing. Exactness of reported figures on every run: monitor compares reported count with the retained messages and reported size with bytes in log files + buffered messages after every step, get_topic figures vs model, before/after restart." + PART_NOTE, "6 (C16)"),
 "C18": ("Theorems: the kept messages of a request have pairwise distinct ids unknown before, first occurrence wins, a distinct id is never dropped, duplicates consume no offset, dedup off keeps everything. Correspondence: repetition patterns within/across batches, persist boundaries and restarts; monitor replays the id set." + PART_NOTE, "6 (C18)"),
 "C08": ("Theorems (every partition count, every member set, EVERY visiting order of the member hash map): each partition is in exactly one member's share, shares differ by at most one, the assignment covers exactly the current members, a member's partition-less polls rotate through its share, and with next+auto-commit the messages handed out per partition are a prefix of its log in order, none twice, whichever members poll. Correspondence: up to 5 real TCP clients joining/leaving/disconnecting, partitions added/removed, partition-less polls; monitors group_ok / rotation_ok / delivery_ok on the implementation's listings and polls. Simultaneity of a poll with a rebalance is not modelled (partial on 'schedules').", "6 (C08)"),
 "C09": ("Theorems (all permission records, all ids, all histories of user create/update/delete): the Permissioner tables always decide as the requester's current record does; allowed only if the documented hierarchy grants it; records of other streams/topics never matter; monotone in the record; root keeps everything and cannot be deleted or stripped. Correspondence: exhaustive sweep of the real rule functions (1024 global x 1153 stream/topic records x 35 rules in the thorough tier).", "6 (C09)"),
 "C11": ("Theorems (for every 32-bit checksum function, no collision-freeness assumed): round trip of well-formed histories; the loader accepts exactly the byte-exact encodings of consecutively numbered histories from index 0 with matching checksums; entries removed/duplicated/reordered or a cut tail are accepted only as a prefix of the true history; journals of different histories differ; any sequence of applies and failed appends leaves a loadable journal holding exactly the successful entries (apply modelled as one critical section, as repaired). Single-byte corruption is stated as C11_byte_full and decided per run by mutating real journals (every truncation length, byte mutations, entry permutations) loaded by the real loader and the Coq loader with CRC-32 evaluated in Coq; concurrent applies on a multi-thread runtime must leave a loadable journal. Schedules are exercised, not enumerated (partial on 'schedules').", "6 (C11)"),
 "C13": ("Theorem: for 23 request formats (identifier-addressed stream/topic/user/group commands, polling, consumer offsets, partitions, create/update stream, create group) every well-formed value - every identifier kind and length 1..255, optional fields, extreme numbers - encoded as the SDK does is decoded by the server's decoder to the same request; decoder totality. Correspondence: SDK bytes = model bytes; server decode of truncated/extended/byte-flipped frames = model decode (canonical re-encoding compared); end to end over TCP with one-character and 255-character names for the remaining commands and the responses; garbage frames on a raw connection must leave catalogue, log and other connections untouched. Responses, SendMessages/CreateTopic/user commands, HTTP/JSON and QUIC are not modelled (partial).", "6 (C13)"),
 "C17": ("Theorems (all hash values, partition counts, cursor values, histories of partition changes): key routing in range and deterministic, named partition exact-or-refused, one send = one partition, balanced rotation successor law and even spread; model tied to Topic::append_messages by differential runs with the spec monitor evaluated on the implementation's observations.", "6 (C17)"),
}
hooks = subprocess.run("git -C /repo log --format=%h --grep='^verif hooks' ", shell=True, capture_output=True, text=True).stdout.split()
m = {
 "version": 1,
 "setup_cmd": "./check setup",
 "hooks": {"guard": "cargo feature verif_hooks (crates server and iggy/sdk), off by default",
           "enable": "harness/Cargo.toml depends on /repo/server and /repo/sdk with features=[\"verif_hooks\"]",
           "baseline_off_cmd": "cd /repo && cargo test --workspace --no-fail-fast --offline",
           "source_commits": hooks[::-1], "add_only": True},
 "engines": [
  {"name": "coq", "path": "coq/theories", "serves_properties": sorted(claimed), "kind_free_text": "Coq 8.16.1 development: executable Gallina models (Model/), proofs (Proofs/), property statements (Props/)"},
  {"name": "vh", "path": "harness", "serves_properties": sorted(claimed), "kind_free_text": "Rust harness linking /repo/server and /repo/sdk (working tree, feature verif_hooks): pure modes and an in-process server behind its real TCP listener driven by the SDK client"},
  {"name": "check", "path": "check", "serves_properties": sorted(claimed), "kind_free_text": "Python driver: proof gate, trace generation, in-Coq model evaluation (vm_compute), differ, spec monitor, evidence"}],
 "checks": [], "not_applicable": [],
 "notes": "Technique: machine-checked proof in Coq 8.16.1 about hand-written executable models, tied to /repo by a correspondence check on every run. See DESIGN.md.",
}
for p in props:
    pid = p["id"]
    if pid in claimed:
        m["checks"].append({"property_id": pid, "quick_cmd": "./check %s --tier quick" % pid, "thorough_cmd": "./check %s --tier thorough" % pid,
                            "evidence_file": "evidence/%s.json" % pid, "replay_cmd_template": "./check replay {path}", "engine": "coq",
                            "level_claimed": {"category": "proof", "text": claimed[pid][0], "design_ref": "DESIGN.md section " + claimed[pid][1]},
                            "level_note": NOTE, "technique": TECH})
    else:
        m["not_applicable"].append({"property_id": pid, "reason": "not yet built in this development (planned, see DESIGN.md section 6); not claimed until its model, theorems and correspondence check exist"})
json.dump(m, open(os.path.join(ROOT, "MANIFEST.json"), "w"), indent=1)
print("claimed:", sorted(claimed))
