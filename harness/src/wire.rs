//! C13: SDK encoders vs the server's decoder (`ServerCommand::from_bytes`, re-exported under verif_hooks).
use crate::common::*;
use bytes::{BufMut, Bytes, BytesMut};
use iggy::bytes_serializable::BytesSerializable;
use iggy::command::Command;
use iggy::consumer::{Consumer, ConsumerKind};
use iggy::consumer_groups::create_consumer_group::CreateConsumerGroup;
use iggy::consumer_groups::delete_consumer_group::DeleteConsumerGroup;
use iggy::consumer_groups::get_consumer_group::GetConsumerGroup;
use iggy::consumer_groups::get_consumer_groups::GetConsumerGroups;
use iggy::consumer_groups::join_consumer_group::JoinConsumerGroup;
use iggy::consumer_groups::leave_consumer_group::LeaveConsumerGroup;
use iggy::consumer_offsets::delete_consumer_offset::DeleteConsumerOffset;
use iggy::consumer_offsets::get_consumer_offset::GetConsumerOffset;
use iggy::consumer_offsets::store_consumer_offset::StoreConsumerOffset;
use iggy::identifier::Identifier;
use iggy::messages::poll_messages::{PollMessages, PollingKind, PollingStrategy};
use iggy::messages::send_messages::{Message, Partitioning, PartitioningKind, SendMessages};
use iggy::models::header::{HeaderKey, HeaderKind, HeaderValue};
use std::collections::HashMap;
use iggy::partitions::create_partitions::CreatePartitions;
use iggy::partitions::delete_partitions::DeletePartitions;
use iggy::streams::create_stream::CreateStream;
use iggy::streams::delete_stream::DeleteStream;
use iggy::streams::get_stream::GetStream;
use iggy::streams::purge_stream::PurgeStream;
use iggy::streams::update_stream::UpdateStream;
use iggy::topics::delete_topic::DeleteTopic;
use iggy::topics::get_topic::GetTopic;
use iggy::topics::get_topics::GetTopics;
use iggy::topics::purge_topic::PurgeTopic;
use iggy::users::delete_user::DeleteUser;
use iggy::compression::compression_algorithm::CompressionAlgorithm;
use iggy::messages::flush_unsaved_buffer::FlushUnsavedBuffer;
use iggy::models::user_status::UserStatus;
use iggy::personal_access_tokens::create_personal_access_token::CreatePersonalAccessToken;
use iggy::personal_access_tokens::delete_personal_access_token::DeletePersonalAccessToken;
use iggy::personal_access_tokens::login_with_personal_access_token::LoginWithPersonalAccessToken;
use iggy::system::get_client::GetClient;
use iggy::topics::create_topic::CreateTopic;
use iggy::topics::update_topic::UpdateTopic;
use iggy::users::change_password::ChangePassword;
use iggy::users::create_user::CreateUser;
use iggy::users::login_user::LoginUser;
use iggy::users::update_user::UpdateUser;
use iggy::utils::expiry::IggyExpiry;
use iggy::utils::topic_size::MaxTopicSize;
use iggy::users::get_user::GetUser;
use serde_json::{json, Value};
use server::verif::ServerCommand;

fn hex(b: &[u8]) -> String {
    b.iter().map(|x| format!("{:02x}", x)).collect()
}
fn unhex(s: &str) -> Vec<u8> {
    (0..s.len() / 2).map(|i| u8::from_str_radix(&s[2 * i..2 * i + 2], 16).unwrap()).collect()
}
fn id(v: &Value) -> Identifier {
    if v[0] == "n" {
        // numeric identifiers are built field by field: Identifier::numeric refuses 0, the wire format does not
        Identifier { kind: iggy::identifier::IdKind::Numeric, length: 4, value: (v[1].as_u64().unwrap() as u32).to_le_bytes().to_vec() }
    } else {
        let s = v[1].as_str().unwrap();
        Identifier { kind: iggy::identifier::IdKind::String, length: s.len() as u8, value: s.as_bytes().to_vec() }
    }
}
fn consumer(v: &Value) -> Consumer {
    Consumer { kind: if v[0].as_bool().unwrap() { ConsumerKind::ConsumerGroup } else { ConsumerKind::Consumer }, id: id(&v[1]) }
}
fn opt(v: &Value) -> Option<u32> {
    v.as_u64().map(|x| x as u32)
}
fn with_code<T: Command>(c: &T) -> (u32, Bytes) {
    (c.code(), c.to_bytes())
}

fn build(q: &Value) -> (u32, Bytes) {
    let (s_, t_, g_) = (&q["s"], &q["t"], &q["g"]);
    match s(q, "k") {
        "poll" => with_code(&PollMessages {
            consumer: consumer(&q["c"]),
            stream_id: id(s_),
            topic_id: id(t_),
            partition_id: opt(&q["p"]),
            strategy: PollingStrategy { kind: PollingKind::from_code(u(q, "kind") as u8).unwrap(), value: u(q, "value") },
            count: u(q, "count") as u32,
            auto_commit: q["ac"].as_bool().unwrap(),
        }),
        "store_offset" => with_code(&StoreConsumerOffset { consumer: consumer(&q["c"]), stream_id: id(s_), topic_id: id(t_), partition_id: opt(&q["p"]), offset: u(q, "offset") }),
        "get_offset" => with_code(&GetConsumerOffset { consumer: consumer(&q["c"]), stream_id: id(s_), topic_id: id(t_), partition_id: opt(&q["p"]) }),
        "delete_offset" => with_code(&DeleteConsumerOffset { consumer: consumer(&q["c"]), stream_id: id(s_), topic_id: id(t_), partition_id: opt(&q["p"]) }),
        "get_stream" => with_code(&GetStream { stream_id: id(s_) }),
        "delete_stream" => with_code(&DeleteStream { stream_id: id(s_) }),
        "purge_stream" => with_code(&PurgeStream { stream_id: id(s_) }),
        "get_topics" => with_code(&GetTopics { stream_id: id(s_) }),
        "get_user" => with_code(&GetUser { user_id: id(s_) }),
        "delete_user" => with_code(&DeleteUser { user_id: id(s_) }),
        "get_topic" => with_code(&GetTopic { stream_id: id(s_), topic_id: id(t_) }),
        "delete_topic" => with_code(&DeleteTopic { stream_id: id(s_), topic_id: id(t_) }),
        "purge_topic" => with_code(&PurgeTopic { stream_id: id(s_), topic_id: id(t_) }),
        "get_groups" => with_code(&GetConsumerGroups { stream_id: id(s_), topic_id: id(t_) }),
        "get_group" => with_code(&GetConsumerGroup { stream_id: id(s_), topic_id: id(t_), group_id: id(g_) }),
        "delete_group" => with_code(&DeleteConsumerGroup { stream_id: id(s_), topic_id: id(t_), group_id: id(g_) }),
        "join_group" => with_code(&JoinConsumerGroup { stream_id: id(s_), topic_id: id(t_), group_id: id(g_) }),
        "leave_group" => with_code(&LeaveConsumerGroup { stream_id: id(s_), topic_id: id(t_), group_id: id(g_) }),
        "create_partitions" => with_code(&CreatePartitions { stream_id: id(s_), topic_id: id(t_), partitions_count: u(q, "n") as u32 }),
        "delete_partitions" => with_code(&DeletePartitions { stream_id: id(s_), topic_id: id(t_), partitions_count: u(q, "n") as u32 }),
        "create_stream" => with_code(&CreateStream { stream_id: opt(&q["id"]), name: s(q, "name").to_string() }),
        "update_stream" => with_code(&UpdateStream { stream_id: id(s_), name: s(q, "name").to_string() }),
        "create_group" => with_code(&CreateConsumerGroup { stream_id: id(s_), topic_id: id(t_), group_id: opt(&q["id"]), name: s(q, "name").to_string() }),
        "create_topic" => with_code(&CreateTopic {
            stream_id: id(s_),
            topic_id: opt(&q["id"]),
            partitions_count: u(q, "n") as u32,
            compression_algorithm: CompressionAlgorithm::from_code(u(q, "comp") as u8).unwrap(),
            message_expiry: IggyExpiry::from(u(q, "expiry")),
            max_topic_size: MaxTopicSize::from(u(q, "max")),
            replication_factor: q["repl"].as_u64().map(|x| x as u8),
            name: s(q, "name").to_string(),
        }),
        "update_topic" => with_code(&UpdateTopic {
            stream_id: id(s_),
            topic_id: id(t_),
            compression_algorithm: CompressionAlgorithm::from_code(u(q, "comp") as u8).unwrap(),
            message_expiry: IggyExpiry::from(u(q, "expiry")),
            max_topic_size: MaxTopicSize::from(u(q, "max")),
            replication_factor: q["repl"].as_u64().map(|x| x as u8),
            name: s(q, "name").to_string(),
        }),
        "create_user" => with_code(&CreateUser { username: s(q, "name").to_string(), password: s(q, "pw").to_string(), status: UserStatus::from_code(u(q, "status") as u8).unwrap(), permissions: None }),
        "update_user" => with_code(&UpdateUser {
            user_id: id(s_),
            username: q["uname"].as_str().map(|x| x.to_string()),
            status: q["status"].as_u64().map(|x| UserStatus::from_code(x as u8).unwrap()),
        }),
        "change_password" => with_code(&ChangePassword { user_id: id(s_), current_password: s(q, "cur").to_string(), new_password: s(q, "new").to_string() }),
        "login_user" => with_code(&LoginUser {
            username: s(q, "name").to_string(),
            password: s(q, "pw").to_string(),
            version: q["version"].as_str().map(|x| x.to_string()),
            context: q["context"].as_str().map(|x| x.to_string()),
        }),
        "flush" => with_code(&FlushUnsavedBuffer { stream_id: id(s_), topic_id: id(t_), partition_id: u(q, "n") as u32, fsync: q["fsync"].as_bool().unwrap() }),
        "get_client" => with_code(&GetClient { client_id: u(q, "n") as u32 }),
        "create_pat" => with_code(&CreatePersonalAccessToken { name: s(q, "name").to_string(), expiry: IggyExpiry::from(u(q, "expiry")) }),
        "delete_pat" => with_code(&DeletePersonalAccessToken { name: s(q, "name").to_string() }),
        "login_pat" => with_code(&LoginWithPersonalAccessToken { token: s(q, "name").to_string() }),
        "send" => {
            let pv = unhex(s(q, "pv"));
            let messages: Vec<Message> = q["msgs"]
                .as_array()
                .unwrap()
                .iter()
                .map(|m| {
                    let payload = unhex(s(m, "payload"));
                    let hdrs = m["hdrs"].as_array().unwrap();
                    let headers = if hdrs.is_empty() {
                        None
                    } else {
                        let mut h = HashMap::new();
                        for e in hdrs {
                            let key = String::from_utf8(unhex(e[0].as_str().unwrap())).unwrap();
                            h.insert(HeaderKey::new(&key).unwrap(), HeaderValue { kind: HeaderKind::from_code(e[1].as_u64().unwrap() as u8).unwrap(), value: Bytes::from(unhex(e[2].as_str().unwrap())) });
                        }
                        Some(h)
                    };
                    Message { id: s(m, "id").parse::<u128>().unwrap(), length: payload.len() as u32, payload: Bytes::from(payload), headers }
                })
                .collect();
            with_code(&SendMessages {
                stream_id: id(s_),
                topic_id: id(t_),
                partitioning: Partitioning { kind: PartitioningKind::from_code(u(q, "pk") as u8).unwrap(), length: pv.len() as u8, value: pv },
                messages,
            })
        }
        other => panic!("unknown request kind {other}"),
    }
}

fn decode(code: u32, payload: &[u8]) -> Value {
    let mut b = BytesMut::with_capacity(4 + payload.len());
    b.put_u32_le(code);
    b.put_slice(payload);
    let bytes = b.freeze();
    let r = std::panic::catch_unwind(std::panic::AssertUnwindSafe(|| ServerCommand::from_bytes(bytes)));
    match r {
        Err(_) => json!({"r": "panic"}),
        Ok(Err(e)) => json!({"r": "err", "name": e.as_string()}),
        Ok(Ok(ServerCommand::SendMessages(c))) => {
            // a header MAP is written in no fixed order: the decoded request is reported field by field
            let msgs: Vec<Value> = c
                .messages
                .iter()
                .map(|m| {
                    let mut hdrs: Vec<(String, u8, String)> =
                        m.headers.as_ref().map(|h| h.iter().map(|(k, v)| (hex(k.as_str().as_bytes()), v.kind.as_code(), hex(&v.value))).collect()).unwrap_or_default();
                    hdrs.sort();
                    json!({"id": m.id.to_string(), "hdrs": hdrs, "payload": hex(&m.payload), "length": m.length})
                })
                .collect();
            json!({"r": "ok", "send": {"s": hex(&c.stream_id.to_bytes()), "t": hex(&c.topic_id.to_bytes()), "pk": c.partitioning.kind.as_code(), "pv": hex(&c.partitioning.value),
                "plen": c.partitioning.length, "msgs": msgs}})
        }
        Ok(Ok(cmd)) => {
            let re = cmd.to_bytes();
            json!({"r": "ok", "canon": hex(&re[4..])})
        }
    }
}

pub fn main() {
    std::panic::set_hook(Box::new(|_| {}));
    for t in read_traces() {
        let mut outs = vec![];
        for it in t["items"].as_array().unwrap() {
            if let Some(q) = it.get("q") {
                let (code, bytes) = build(q);
                let d = decode(code, &bytes);
                outs.push(json!({"code": code, "hex": hex(&bytes), "dec": d}));
            } else {
                let raw = &it["raw"];
                outs.push(json!({"dec": decode(u(raw, "code") as u32, &unhex(s(raw, "hex")))}));
            }
        }
        println!("{}", json!({"id": t["id"], "outs": outs}));
    }
}
