//! C11: the real `FileState` (state journal). Two sub-modes:
//!  `journal-make`: applies a list of commands with the real `FileState::apply` and returns the file bytes and
//!                  the entry boundaries;
//!  `journal-load`: writes each given byte string as the state file and runs the real `load_entries`.
use crate::common::*;
use iggy::identifier::Identifier;
use iggy::models::user_status::UserStatus;
use iggy::streams::create_stream::CreateStream;
use iggy::streams::delete_stream::DeleteStream;
use iggy::streams::purge_stream::PurgeStream;
use iggy::streams::update_stream::UpdateStream;
use iggy::users::create_user::CreateUser;
use iggy::users::delete_user::DeleteUser;
use iggy::utils::timestamp::verif_clock;
use serde_json::{json, Value};
use server::state::command::EntryCommand;
use server::state::file::FileState;
use server::state::State;
use server::streaming::persistence::persister::{FilePersister, PersisterKind};
use server::versioning::SemanticVersion;
use std::sync::Arc;

fn hex(b: &[u8]) -> String {
    b.iter().map(|x| format!("{:02x}", x)).collect()
}
fn unhex(s: &str) -> Vec<u8> {
    (0..s.len() / 2).map(|i| u8::from_str_radix(&s[2 * i..2 * i + 2], 16).unwrap()).collect()
}

fn command_of(c: &Value) -> EntryCommand {
    match s(c, "k") {
        "create_stream" => EntryCommand::CreateStream(CreateStream { stream_id: c.get("id").and_then(|v| v.as_u64()).map(|v| v as u32), name: s(c, "name").to_string() }),
        "update_stream" => EntryCommand::UpdateStream(UpdateStream { stream_id: Identifier::numeric(u(c, "id") as u32).unwrap(), name: s(c, "name").to_string() }),
        "delete_stream" => EntryCommand::DeleteStream(DeleteStream { stream_id: Identifier::numeric(u(c, "id") as u32).unwrap() }),
        "purge_stream" => EntryCommand::PurgeStream(PurgeStream { stream_id: Identifier::named(s(c, "name")).unwrap() }),
        "delete_user" => EntryCommand::DeleteUser(DeleteUser { user_id: Identifier::named(s(c, "name")).unwrap() }),
        _ => EntryCommand::CreateUser(CreateUser { username: s(c, "name").to_string(), password: "hashhashhash".to_string(), status: UserStatus::Active, permissions: None }),
    }
}

fn new_state(path: &str) -> FileState {
    FileState::new(path, &SemanticVersion::current().unwrap(), Arc::new(PersisterKind::File(FilePersister {})), None)
}

pub async fn make() {
    let dir = scratch_dir("jmake");
    for t in read_traces() {
        let path = dir.join("state.log");
        let _ = std::fs::remove_file(&path);
        let st = new_state(path.to_str().unwrap());
        st.init().await.unwrap();
        let mut bounds = vec![0usize];
        let mut clock = crate::srv::T0;
        let mut results = vec![];
        for c in t["cmds"].as_array().unwrap() {
            clock += 1000;
            verif_clock::set(clock);
            // "fail": the append of this command fails (the journal path is a directory for the duration of the call)
            let fail = c.get("fail").and_then(|v| v.as_bool()).unwrap_or(false);
            let away = dir.join("state.log.away");
            let existed = path.exists();
            if fail {
                if existed {
                    std::fs::rename(&path, &away).unwrap();
                }
                std::fs::create_dir(&path).unwrap();
            }
            let r = st.apply(u(c, "user") as u32, command_of(c)).await;
            if fail {
                std::fs::remove_dir(&path).unwrap();
                if existed {
                    std::fs::rename(&away, &path).unwrap();
                }
            }
            results.push(r.is_ok());
            bounds.push(std::fs::metadata(&path).map(|m| m.len() as usize).unwrap_or(0));
        }
        let bytes = std::fs::read(&path).unwrap_or_default();
        println!("{}", json!({"id": t["id"], "hex": hex(&bytes), "bounds": bounds, "applied": results,
            "version": SemanticVersion::current().unwrap().get_numeric_version().unwrap()}));
    }
    let _ = std::fs::remove_dir_all(&dir);
}

pub fn load(rt: &tokio::runtime::Runtime) {
    std::panic::set_hook(Box::new(|_| {}));
    let dir = scratch_dir("jload");
    for t in read_traces() {
        let mut outs = vec![];
        for (i, v) in t["files"].as_array().unwrap().iter().enumerate() {
            let path = dir.join(format!("state_{}.log", i % 4));
            std::fs::write(&path, unhex(v.as_str().unwrap())).unwrap();
            let p = path.to_str().unwrap().to_string();
            let r = std::panic::catch_unwind(std::panic::AssertUnwindSafe(|| {
                rt.block_on(async {
                    let st = new_state(&p);
                    st.load_entries().await
                })
            }));
            outs.push(match r {
                Err(_) => json!({"panic": true}),
                Ok(Err(e)) => json!({"err": e.as_string()}),
                Ok(Ok(es)) => {
                    let l: Vec<Value> = es
                        .iter()
                        .map(|e| {
                            let cmd = e.command.clone();
                            let code = u32::from_le_bytes(cmd[0..4].try_into().unwrap());
                            json!([e.index, e.timestamp.as_micros(), e.user_id, code, cmd.len() - 8, cmd[8..].to_vec()])
                        })
                        .collect();
                    json!({"ok": l})
                }
            });
        }
        println!("{}", json!({"id": t["id"], "outs": outs}));
    }
    let _ = std::fs::remove_dir_all(&dir);
}

/// `journal-race`: several tasks apply commands concurrently to one FileState (as the purge handlers do under the
/// shared system lock); afterwards the journal must load and hold consecutive indices.
pub async fn race() {
    let dir = scratch_dir("jrace");
    for t in read_traces() {
        let path = dir.join("state.log");
        let _ = std::fs::remove_file(&path);
        let st = Arc::new(new_state(path.to_str().unwrap()));
        st.init().await.unwrap();
        let tasks = u(&t, "tasks") as usize;
        let per = u(&t, "per") as usize;
        if t.get("seed_entry").and_then(|v| v.as_bool()).unwrap_or(true) {
            st.apply(0, command_of(&json!({"k": "create_user", "name": "root"}))).await.unwrap();
        }
        let mut handles = vec![];
        for k in 0..tasks {
            let st = st.clone();
            handles.push(tokio::spawn(async move {
                let mut ok = 0;
                for i in 0..per {
                    let c = json!({"k": "purge_stream", "name": format!("s{}-{}", k, i)});
                    if st.apply(1, command_of(&c)).await.is_ok() {
                        ok += 1;
                    }
                    tokio::task::yield_now().await;
                }
                ok
            }));
        }
        let mut acked = 0;
        for h in handles {
            acked += h.await.unwrap_or(0);
        }
        let st2 = new_state(path.to_str().unwrap());
        let r = st2.load_entries().await;
        let out = match r {
            Ok(es) => json!({"load": "ok", "entries": es.len(), "indices_consecutive": es.iter().enumerate().all(|(i, e)| e.index == i as u64)}),
            Err(e) => json!({"load": "err", "name": e.as_string()}),
        };
        println!("{}", json!({"id": t["id"], "acked": acked, "result": out}));
    }
    let _ = std::fs::remove_dir_all(&dir);
}
