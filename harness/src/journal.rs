//! C11: the real `FileState` (state journal). Two sub-modes:
//!  `journal-make`: applies a list of commands with the real `FileState::apply` and returns the file bytes and
//!                  the entry boundaries;
//!  `journal-load`: writes each given byte string as the state file and runs the real `load_entries`.
use crate::common::*;
use iggy::identifier::Identifier;
use iggy::models::user_status::UserStatus;
use iggy::streams::create_stream::CreateStream;
use iggy::streams::delete_stream::DeleteStream;
use iggy::streams::purge_stream::PurgeStream;
use iggy::streams::update_stream::UpdateStream;
use iggy::users::create_user::CreateUser;
use iggy::users::delete_user::DeleteUser;
use iggy::utils::timestamp::verif_clock;
use serde_json::{json, Value};
use server::state::command::EntryCommand;
use server::state::file::FileState;
use server::state::State;
use server::streaming::persistence::persister::{FilePersister, PersisterKind};
use server::versioning::SemanticVersion;
use std::sync::Arc;

fn hex(b: &[u8]) -> String {
    b.iter().map(|x| format!("{:02x}", x)).collect()
}
fn unhex(s: &str) -> Vec<u8> {
    (0..s.len() / 2).map(|i| u8::from_str_radix(&s[2 * i..2 * i + 2], 16).unwrap()).collect()
}

fn sid(c: &Value) -> Identifier {
    Identifier::numeric(u(c, "id") as u32).unwrap()
}

fn command_of(c: &Value) -> EntryCommand {
    match s(c, "k") {
        "create_stream" => EntryCommand::CreateStream(CreateStream { stream_id: c.get("id").and_then(|v| v.as_u64()).map(|v| v as u32), name: s(c, "name").to_string() }),
        "update_stream" => EntryCommand::UpdateStream(UpdateStream { stream_id: Identifier::numeric(u(c, "id") as u32).unwrap(), name: s(c, "name").to_string() }),
        "delete_stream" => EntryCommand::DeleteStream(DeleteStream { stream_id: Identifier::numeric(u(c, "id") as u32).unwrap() }),
        "purge_stream" => EntryCommand::PurgeStream(PurgeStream { stream_id: Identifier::named(s(c, "name")).unwrap() }),
        "delete_user" => EntryCommand::DeleteUser(DeleteUser { user_id: Identifier::named(s(c, "name")).unwrap() }),
        "create_topic" => EntryCommand::CreateTopic(iggy::topics::create_topic::CreateTopic {
            stream_id: sid(c),
            topic_id: c.get("tid").and_then(|v| v.as_u64()).map(|v| v as u32),
            partitions_count: u(c, "id") as u32,
            compression_algorithm: iggy::compression::compression_algorithm::CompressionAlgorithm::None,
            message_expiry: crate::srv::expiry_of(c.get("expiry")),
            max_topic_size: crate::srv::max_size_of(c.get("max_size")),
            replication_factor: c.get("repl").and_then(|v| v.as_u64()).map(|v| v as u8),
            name: s(c, "name").to_string(),
        }),
        "update_topic" => EntryCommand::UpdateTopic(iggy::topics::update_topic::UpdateTopic {
            stream_id: sid(c),
            topic_id: Identifier::named(s(c, "name")).unwrap(),
            compression_algorithm: iggy::compression::compression_algorithm::CompressionAlgorithm::Gzip,
            message_expiry: crate::srv::expiry_of(c.get("expiry")),
            max_topic_size: crate::srv::max_size_of(c.get("max_size")),
            replication_factor: c.get("repl").and_then(|v| v.as_u64()).map(|v| v as u8),
            name: s(c, "name").to_string(),
        }),
        "delete_topic" => EntryCommand::DeleteTopic(iggy::topics::delete_topic::DeleteTopic { stream_id: sid(c), topic_id: Identifier::named(s(c, "name")).unwrap() }),
        "purge_topic" => EntryCommand::PurgeTopic(iggy::topics::purge_topic::PurgeTopic { stream_id: sid(c), topic_id: Identifier::named(s(c, "name")).unwrap() }),
        "create_partitions" => EntryCommand::CreatePartitions(iggy::partitions::create_partitions::CreatePartitions { stream_id: sid(c), topic_id: Identifier::named(s(c, "name")).unwrap(), partitions_count: u(c, "id") as u32 }),
        "delete_partitions" => EntryCommand::DeletePartitions(iggy::partitions::delete_partitions::DeletePartitions { stream_id: sid(c), topic_id: Identifier::named(s(c, "name")).unwrap(), partitions_count: u(c, "id") as u32 }),
        "create_group" => EntryCommand::CreateConsumerGroup(iggy::consumer_groups::create_consumer_group::CreateConsumerGroup {
            stream_id: sid(c),
            topic_id: Identifier::numeric(3).unwrap(),
            group_id: c.get("tid").and_then(|v| v.as_u64()).map(|v| v as u32),
            name: s(c, "name").to_string(),
        }),
        "delete_group" => EntryCommand::DeleteConsumerGroup(iggy::consumer_groups::delete_consumer_group::DeleteConsumerGroup { stream_id: sid(c), topic_id: Identifier::numeric(3).unwrap(), group_id: Identifier::named(s(c, "name")).unwrap() }),
        "update_user" => EntryCommand::UpdateUser(iggy::users::update_user::UpdateUser {
            user_id: Identifier::named(s(c, "name")).unwrap(),
            username: c.get("new_name").and_then(|v| v.as_str()).map(|x| x.to_string()),
            status: c.get("inactive").and_then(|v| v.as_bool()).map(|b| if b { UserStatus::Inactive } else { UserStatus::Active }),
        }),
        "change_password" => EntryCommand::ChangePassword(iggy::users::change_password::ChangePassword { user_id: sid(c), current_password: s(c, "name").to_string(), new_password: "another-hash".to_string() }),
        "update_permissions" => EntryCommand::UpdatePermissions(iggy::users::update_permissions::UpdatePermissions {
            user_id: Identifier::named(s(c, "name")).unwrap(),
            permissions: c.get("perms").filter(|v| !v.is_null()).map(crate::perm::perms_from_json),
        }),
        "delete_pat" => EntryCommand::DeletePersonalAccessToken(iggy::personal_access_tokens::delete_personal_access_token::DeletePersonalAccessToken { name: s(c, "name").to_string() }),
        "create_user_perms" => EntryCommand::CreateUser(CreateUser {
            username: s(c, "name").to_string(),
            password: "hashhashhash".to_string(),
            status: UserStatus::Inactive,
            permissions: c.get("perms").filter(|v| !v.is_null()).map(crate::perm::perms_from_json),
        }),
        _ => EntryCommand::CreateUser(CreateUser { username: s(c, "name").to_string(), password: "hashhashhash".to_string(), status: UserStatus::Active, permissions: None }),
    }
}

fn new_state(path: &str) -> FileState {
    FileState::new(path, &SemanticVersion::current().unwrap(), Arc::new(PersisterKind::File(FilePersister {})), None)
}

pub async fn make() {
    let dir = scratch_dir("jmake");
    for t in read_traces() {
        let path = dir.join("state.log");
        let _ = std::fs::remove_file(&path);
        let mut st = new_state(path.to_str().unwrap());
        st.init().await.unwrap();
        let mut bounds = vec![0usize];
        let mut clock = crate::srv::T0;
        let mut results = vec![];
        let mut value_rt: Vec<bool> = vec![];
        let mut reopen_failed: Option<String> = None;
        for c in t["cmds"].as_array().unwrap() {
            clock += 1000;
            verif_clock::set(clock);
            // "reopen": the server restarts before this command - a new FileState is initialised on the journal written so far
            if c.get("reopen").and_then(|v| v.as_bool()).unwrap_or(false) {
                st = new_state(path.to_str().unwrap());
                if let Err(e) = st.init().await {
                    reopen_failed = Some(e.as_string().to_string());
                    break;
                }
            }
            // "fail": the append of this command fails (the journal path is a directory for the duration of the call)
            let fail = c.get("fail").and_then(|v| v.as_bool()).unwrap_or(false);
            let away = dir.join("state.log.away");
            let existed = path.exists();
            if fail {
                if existed {
                    std::fs::rename(&path, &away).unwrap();
                }
                std::fs::create_dir(&path).unwrap();
            }
            {
                // the command as a value: encoded and decoded again it must be the same command
                use iggy::bytes_serializable::BytesSerializable;
                let original = command_of(c);
                let bytes = original.to_bytes();
                let same = std::panic::catch_unwind(std::panic::AssertUnwindSafe(|| EntryCommand::from_bytes(bytes).map(|back| back == original).unwrap_or(false))).unwrap_or(false);
                value_rt.push(same);
            }
            let r = st.apply(u(c, "user") as u32, command_of(c)).await;
            if fail {
                std::fs::remove_dir(&path).unwrap();
                if existed {
                    std::fs::rename(&away, &path).unwrap();
                }
            }
            results.push(r.is_ok());
            bounds.push(std::fs::metadata(&path).map(|m| m.len() as usize).unwrap_or(0));
        }
        let bytes = std::fs::read(&path).unwrap_or_default();
        println!("{}", json!({"id": t["id"], "hex": hex(&bytes), "bounds": bounds, "applied": results, "value_rt": value_rt, "reopen_failed": reopen_failed,
            "version": SemanticVersion::current().unwrap().get_numeric_version().unwrap()}));
    }
    let _ = std::fs::remove_dir_all(&dir);
}

pub fn load(rt: &tokio::runtime::Runtime) {
    std::panic::set_hook(Box::new(|_| {}));
    let dir = scratch_dir("jload");
    for t in read_traces() {
        let mut outs = vec![];
        for (i, v) in t["files"].as_array().unwrap().iter().enumerate() {
            let path = dir.join(format!("state_{}.log", i % 4));
            std::fs::write(&path, unhex(v.as_str().unwrap())).unwrap();
            let p = path.to_str().unwrap().to_string();
            let r = std::panic::catch_unwind(std::panic::AssertUnwindSafe(|| {
                rt.block_on(async {
                    let st = new_state(&p);
                    st.load_entries().await
                })
            }));
            outs.push(match r {
                Err(_) => json!({"panic": true}),
                Ok(Err(e)) => json!({"err": e.as_string()}),
                Ok(Ok(es)) => {
                    let l: Vec<Value> = es
                        .iter()
                        .map(|e| {
                            let cmd = e.command.clone();
                            let code = u32::from_le_bytes(cmd[0..4].try_into().unwrap());
                            json!([e.index, e.timestamp.as_micros(), e.user_id, code, cmd.len() - 8, cmd[8..].to_vec()])
                        })
                        .collect();
                    // every entry's command must decode and encode back to the bytes in the journal
                    use iggy::bytes_serializable::BytesSerializable;
                    let reenc: Vec<bool> = es
                        .iter()
                        .map(|e| {
                            let raw = e.command.clone();
                            // (maps inside a command are written in no fixed order: values are compared, and the command code)
                            std::panic::catch_unwind(std::panic::AssertUnwindSafe(|| {
                                EntryCommand::from_bytes(raw.clone())
                                    .map(|c| {
                                        let again = c.to_bytes();
                                        again[0..4] == raw[0..4] && EntryCommand::from_bytes(again).map(|c2| c2 == c).unwrap_or(false)
                                    })
                                    .unwrap_or(false)
                            }))
                            .unwrap_or(false)
                        })
                        .collect();
                    json!({"ok": l, "reenc": reenc})
                }
            });
        }
        println!("{}", json!({"id": t["id"], "outs": outs}));
    }
    let _ = std::fs::remove_dir_all(&dir);
}

/// `journal-race`: several tasks apply commands concurrently to one FileState (as the purge handlers do under the
/// shared system lock); afterwards the journal must load and hold consecutive indices.
pub async fn race() {
    let dir = scratch_dir("jrace");
    for t in read_traces() {
        let path = dir.join("state.log");
        let _ = std::fs::remove_file(&path);
        let st = Arc::new(new_state(path.to_str().unwrap()));
        st.init().await.unwrap();
        let tasks = u(&t, "tasks") as usize;
        let per = u(&t, "per") as usize;
        if t.get("seed_entry").and_then(|v| v.as_bool()).unwrap_or(true) {
            st.apply(0, command_of(&json!({"k": "create_user", "name": "root"}))).await.unwrap();
        }
        let mut handles = vec![];
        for k in 0..tasks {
            let st = st.clone();
            handles.push(tokio::spawn(async move {
                let mut ok = 0;
                for i in 0..per {
                    let c = json!({"k": "purge_stream", "name": format!("s{}-{}", k, i)});
                    if st.apply(1, command_of(&c)).await.is_ok() {
                        ok += 1;
                    }
                    tokio::task::yield_now().await;
                }
                ok
            }));
        }
        let mut acked = 0;
        for h in handles {
            acked += h.await.unwrap_or(0);
        }
        let st2 = new_state(path.to_str().unwrap());
        let r = st2.load_entries().await;
        let out = match r {
            Ok(es) => json!({"load": "ok", "entries": es.len(), "indices_consecutive": es.iter().enumerate().all(|(i, e)| e.index == i as u64)}),
            Err(e) => json!({"load": "err", "name": e.as_string()}),
        };
        println!("{}", json!({"id": t["id"], "acked": acked, "result": out}));
    }
    let _ = std::fs::remove_dir_all(&dir);
}
