//! Concurrency stress (C12): several SDK clients on connections of their own send to and poll from ONE partition of the
//! in-process server at the same time, while background tasks flush, save, evict the cache and let segments roll.
//! Every operation is stamped with a global logical clock before the call and after the answer.
use crate::common::*;
use crate::srv::{err_json, payload_for};
use bytes::Bytes;
use iggy::client::{Client, MessageClient, UserClient};
use iggy::clients::client::IggyClient;
use iggy::consumer::Consumer;
use iggy::identifier::Identifier;
use iggy::locking::IggySharedMutFn;
use iggy::messages::poll_messages::PollingStrategy;
use iggy::messages::send_messages::{Message, Partitioning};
use serde_json::{json, Value};
use server::streaming::systems::system::SharedSystem;
use std::sync::atomic::{AtomicBool, AtomicU64, Ordering};
use std::sync::Arc;

async fn connect(addr: std::net::SocketAddr) -> IggyClient {
    let c = IggyClient::builder().with_tcp().with_server_address(addr.to_string()).build().unwrap();
    c.connect().await.unwrap();
    c.login_user("iggy", "iggy").await.unwrap();
    c
}

struct Lcg(u64);
impl Lcg {
    fn next(&mut self) -> u64 {
        self.0 = self.0.wrapping_mul(6364136223846793005).wrapping_add(1442695040888963407);
        self.0 >> 33
    }
    fn below(&mut self, n: u64) -> u64 {
        self.next() % n.max(1)
    }
}

/// {"op":"stress","producers":P,"consumers":C,"batches":n,"max_batch":k,"polls":m,"count":c,"bg":["flush","save","evict"],"seed":s}
pub async fn stress(addr: std::net::SocketAddr, shared: SharedSystem, op: &Value) -> Value {
    let clock = Arc::new(AtomicU64::new(1));
    let stop = Arc::new(AtomicBool::new(false));
    let producers = u(op, "producers");
    let consumers = u(op, "consumers");
    let batches = u(op, "batches");
    let max_batch = u(op, "max_batch").max(1);
    let polls = u(op, "polls");
    let count = u(op, "count").max(1) as u32;
    let seed = u(op, "seed");
    let chase = op.get("chase").and_then(|v| v.as_bool()).unwrap_or(false);
    let stream = Identifier::numeric(1).unwrap();
    let topic = Identifier::numeric(1).unwrap();
    let mut handles = vec![];
    for p in 0..producers {
        let (clock, stream, topic) = (clock.clone(), stream.clone(), topic.clone());
        handles.push(tokio::spawn(async move {
            let c = connect(addr).await;
            let mut rng = Lcg(seed ^ (p + 1).wrapping_mul(0x9E3779B97F4A7C15));
            let mut events = vec![];
            let mut next_id = (p + 1) * 1_000_000;
            let mut cursor = 0u64;
            for _ in 0..batches {
                let n = 1 + rng.below(max_batch);
                let ids: Vec<u64> = (0..n).map(|i| next_id + i).collect();
                next_id += n;
                let mut msgs: Vec<Message> = ids.iter().map(|id| Message::new(Some(*id as u128), Bytes::from(payload_for(*id, 8 + (*id % 23) as usize)), None)).collect();
                let inv = clock.fetch_add(1, Ordering::SeqCst);
                let r = c.send_messages(&stream, &topic, &Partitioning::partition_id(1), &mut msgs).await;
                let resp = clock.fetch_add(1, Ordering::SeqCst);
                events.push(match r {
                    Ok(()) => json!({"k": "send", "who": p, "inv": inv, "resp": resp, "ids": ids}),
                    Err(e) => json!({"k": "send_err", "who": p, "inv": inv, "resp": resp, "ids": ids, "err": err_json(&e)}),
                });
                if chase {
                    // read from the own cursor right after the send: aims at the window in which a persisted batch is still on
                    // its way to the file while newer messages are already buffered
                    let inv = clock.fetch_add(1, Ordering::SeqCst);
                    let r = c.poll_messages(&stream, &topic, Some(1), &Consumer::default(), &PollingStrategy::offset(cursor), 1000, false).await;
                    let resp = clock.fetch_add(1, Ordering::SeqCst);
                    match r {
                        Ok(pm) => {
                            let msgs: Vec<Value> = pm.messages.iter().map(|m| { let id = m.id as u64; json!([m.offset, id, m.payload.as_ref() == payload_for(id, m.payload.len()).as_slice()]) }).collect();
                            events.push(json!({"k": "poll", "who": 100 + p, "inv": inv, "resp": resp, "offset": cursor, "count": 1000, "msgs": msgs}));
                            cursor += pm.messages.len() as u64;
                        }
                        Err(e) => events.push(json!({"k": "poll_err", "who": 100 + p, "inv": inv, "resp": resp, "offset": cursor, "count": 1000, "err": err_json(&e)})),
                    }
                }
                if rng.below(4) == 0 {
                    tokio::task::yield_now().await;
                }
            }
            let _ = c.disconnect().await;
            events
        }));
    }
    for q in 0..consumers {
        let (clock, stream, topic) = (clock.clone(), stream.clone(), topic.clone());
        handles.push(tokio::spawn(async move {
            let c = connect(addr).await;
            let mut rng = Lcg(seed ^ (q + 77).wrapping_mul(0xD1B54A32D192ED03));
            let mut events = vec![];
            let mut cursor = 0u64;
            for _ in 0..polls {
                // mostly follow the tail, sometimes re-read somewhere behind it
                let offset = if rng.below(4) == 0 { rng.below(cursor + 1) } else { cursor };
                let cnt = 1 + rng.below(count as u64) as u32;
                let inv = clock.fetch_add(1, Ordering::SeqCst);
                let r = c.poll_messages(&stream, &topic, Some(1), &Consumer::default(), &PollingStrategy::offset(offset), cnt, false).await;
                let resp = clock.fetch_add(1, Ordering::SeqCst);
                match r {
                    Ok(pm) => {
                        let msgs: Vec<Value> = pm
                            .messages
                            .iter()
                            .map(|m| {
                                let id = m.id as u64;
                                json!([m.offset, id, m.payload.as_ref() == payload_for(id, m.payload.len()).as_slice()])
                            })
                            .collect();
                        if offset == cursor {
                            cursor += pm.messages.len() as u64;
                        }
                        events.push(json!({"k": "poll", "who": q, "inv": inv, "resp": resp, "offset": offset, "count": cnt, "msgs": msgs}));
                    }
                    Err(e) => events.push(json!({"k": "poll_err", "who": q, "inv": inv, "resp": resp, "offset": offset, "count": cnt, "err": err_json(&e)})),
                }
                if rng.below(3) == 0 {
                    tokio::task::yield_now().await;
                }
            }
            let _ = c.disconnect().await;
            events
        }));
    }
    // background activity until the clients are done
    let mut bg = vec![];
    for (i, kind) in op["bg"].as_array().cloned().unwrap_or_default().into_iter().enumerate() {
        let kind = kind.as_str().unwrap_or("").to_string();
        let (stop, shared, stream, topic) = (stop.clone(), shared.clone(), stream.clone(), topic.clone());
        bg.push(tokio::spawn(async move {
            let mut rng = Lcg(seed ^ (i as u64 + 991).wrapping_mul(0x2545F4914F6CDD1D));
            let c = if kind == "flush" { Some(connect(addr).await) } else { None };
            let mut n = 0u64;
            while !stop.load(Ordering::SeqCst) {
                match kind.as_str() {
                    "flush" => {
                        let _ = c.as_ref().unwrap().flush_unsaved_buffer(&stream, &topic, 1, rng.below(2) == 0).await;
                    }
                    "save" => {
                        let _ = shared.read().await.persist_messages().await;
                    }
                    "evict" => {
                        let system = shared.read().await;
                        if let Ok(st) = system.get_stream(&stream) {
                            if let Ok(tp) = st.get_topic(&topic) {
                                if let Ok(p) = tp.get_partition(1) {
                                    let mut p = p.write().await;
                                    if let Some(cache) = p.cache.as_mut() {
                                        cache.evict_by_size(64 + rng.below(400));
                                    }
                                }
                            }
                        }
                    }
                    _ => {}
                }
                n += 1;
                tokio::time::sleep(std::time::Duration::from_micros(200 + rng.below(1500))).await;
            }
            n
        }));
    }
    let mut events = vec![];
    for h in handles {
        match h.await {
            Ok(ev) => events.extend(ev),
            Err(e) => events.push(json!({"k": "task_panic", "err": format!("{e}")})),
        }
    }
    stop.store(true, Ordering::SeqCst);
    let mut bg_rounds = vec![];
    for h in bg {
        bg_rounds.push(h.await.unwrap_or(0));
    }
    json!({"r": "ok", "events": events, "bg_rounds": bg_rounds})
}


/// {"op":"admin_stress","clients":k,"rounds":n,"seed":s}: several connections create and delete streams (server-assigned ids,
/// names from a small pool) and topics at the same time. What matters afterwards: the journal replays to the catalogue the
/// running server ended up with.
pub async fn admin_stress(addr: std::net::SocketAddr, op: &Value) -> Value {
    use iggy::client::{StreamClient, TopicClient};
    use iggy::compression::compression_algorithm::CompressionAlgorithm;
    use iggy::utils::expiry::IggyExpiry;
    use iggy::utils::topic_size::MaxTopicSize;
    let clients = u(op, "clients");
    let rounds = u(op, "rounds");
    let seed = u(op, "seed");
    let mut handles = vec![];
    for k in 0..clients {
        handles.push(tokio::spawn(async move {
            let c = connect(addr).await;
            let mut rng = Lcg(seed ^ (k + 5).wrapping_mul(0x9E3779B97F4A7C15));
            let (mut ok, mut err) = (0u64, 0u64);
            for _ in 0..rounds {
                let name = format!("st{}", rng.below(4));
                let r = match rng.below(5) {
                    0 | 1 => c.create_stream(&name, None).await.map(|_| ()),
                    2 => c.delete_stream(&Identifier::named(&name).unwrap()).await,
                    3 => c.delete_stream(&Identifier::numeric(1 + rng.below(3) as u32).unwrap()).await,
                    _ => c
                        .create_topic(&Identifier::named(&name).unwrap(), &format!("tp{}", rng.below(3)), 1, CompressionAlgorithm::None, None, None, IggyExpiry::NeverExpire, MaxTopicSize::Unlimited)
                        .await
                        .map(|_| ()),
                };
                if r.is_ok() {
                    ok += 1;
                } else {
                    err += 1;
                }
                if rng.below(3) == 0 {
                    tokio::task::yield_now().await;
                }
            }
            let _ = c.disconnect().await;
            (ok, err)
        }));
    }
    let (mut ok, mut err) = (0, 0);
    for h in handles {
        if let Ok((a, b)) = h.await {
            ok += a;
            err += b;
        }
    }
    json!({"r": "ok", "performed": ok, "refused": err})
}
