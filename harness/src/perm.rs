//! C09 (pure part): the real `Permissioner` on the exhaustive sweep defined in Model/Perm.v
//! (`sweep_perms`, `sweep_tables`, `sweep_eval`): requester 5, target stream 3 / topic 4.
use crate::common::*;
use ahash::AHashMap;
use iggy::error::IggyError;
use iggy::models::permissions::{GlobalPermissions, Permissions, StreamPermissions, TopicPermissions};
use serde_json::{json, Value};
use server::streaming::users::permissioner::Permissioner;

fn bit(n: u64, i: u32) -> bool {
    (n >> i) & 1 == 1
}

pub fn gperm_of(n: u64) -> GlobalPermissions {
    GlobalPermissions {
        manage_servers: bit(n, 0),
        read_servers: bit(n, 1),
        manage_users: bit(n, 2),
        read_users: bit(n, 3),
        manage_streams: bit(n, 4),
        read_streams: bit(n, 5),
        manage_topics: bit(n, 6),
        read_topics: bit(n, 7),
        poll_messages: bit(n, 8),
        send_messages: bit(n, 9),
    }
}

pub fn tperm_of(n: u64) -> TopicPermissions {
    TopicPermissions { manage_topic: bit(n, 0), read_topic: bit(n, 1), poll_messages: bit(n, 2), send_messages: bit(n, 3) }
}

pub fn sperm_of(n: u64, shape: u64, tid: u32) -> StreamPermissions {
    let topics = if shape == 0 {
        None
    } else {
        let mut m = AHashMap::new();
        m.insert(tid - 1, tperm_of(15));
        if shape >= 2 {
            m.insert(tid, tperm_of(shape - 2));
        }
        Some(m)
    };
    StreamPermissions {
        manage_stream: bit(n, 0),
        read_stream: bit(n, 1),
        manage_topics: bit(n, 2),
        read_topics: bit(n, 3),
        poll_messages: bit(n, 4),
        send_messages: bit(n, 5),
        topics,
    }
}

pub fn sweep_perms(g: u64, k: u64) -> Permissions {
    let mut streams = AHashMap::new();
    let mut t4 = AHashMap::new();
    t4.insert(4u32, tperm_of(15));
    streams.insert(
        4u32,
        StreamPermissions { manage_stream: true, read_stream: true, manage_topics: true, read_topics: true, poll_messages: true, send_messages: true, topics: Some(t4) },
    );
    if k != 0 {
        streams.insert(3u32, sperm_of((k - 1) % 64, (k - 1) / 64, 4));
    }
    Permissions { global: gperm_of(g), streams: Some(streams) }
}

pub const RULES: usize = 35;

/// Same order as `all_rules` in Model/Perm.v.
pub fn call_rule(p: &Permissioner, i: usize, u: u32, s: u32, t: u32) -> Result<(), IggyError> {
    match i {
        0 => p.get_stream(u, s),
        1 => p.get_streams(u),
        2 => p.create_stream(u),
        3 => p.update_stream(u, s),
        4 => p.delete_stream(u, s),
        5 => p.purge_stream(u, s),
        6 => p.get_topic(u, s, t),
        7 => p.get_topics(u, s),
        8 => p.create_topic(u, s),
        9 => p.update_topic(u, s, t),
        10 => p.delete_topic(u, s, t),
        11 => p.purge_topic(u, s, t),
        12 => p.poll_messages(u, s, t),
        13 => p.append_messages(u, s, t),
        14 => p.create_consumer_group(u, s, t),
        15 => p.delete_consumer_group(u, s, t),
        16 => p.get_consumer_group(u, s, t),
        17 => p.get_consumer_groups(u, s, t),
        18 => p.join_consumer_group(u, s, t),
        19 => p.leave_consumer_group(u, s, t),
        20 => p.get_consumer_offset(u, s, t),
        21 => p.store_consumer_offset(u, s, t),
        22 => p.delete_consumer_offset(u, s, t),
        23 => p.create_partitions(u, s, t),
        24 => p.delete_partitions(u, s, t),
        25 => p.get_stats(u),
        26 => p.get_clients(u),
        27 => p.get_client(u),
        28 => p.get_user(u),
        29 => p.get_users(u),
        30 => p.create_user(u),
        31 => p.delete_user(u),
        32 => p.update_user(u),
        33 => p.update_permissions(u),
        34 => p.change_password(u),
        _ => unreachable!(),
    }
}

/// returns (allowed bits, crashed bits)
pub fn eval_all(p: &Permissioner, u: u32, s: u32, t: u32) -> (u64, u64) {
    let mut bits = 0u64;
    let mut crashed = 0u64;
    for i in 0..RULES {
        let r = std::panic::catch_unwind(std::panic::AssertUnwindSafe(|| call_rule(p, i, u, s, t)));
        match r {
            Ok(Ok(())) => bits |= 1 << i,
            Ok(Err(_)) => {}
            Err(_) => crashed |= 1 << i,
        }
    }
    (bits, crashed)
}

pub fn main() {
    std::panic::set_hook(Box::new(|_| {}));
    for t in read_traces() {
        let (g0, g1) = (t["g"][0].as_u64().unwrap(), t["g"][1].as_u64().unwrap());
        let ks: Vec<u64> = t["k"].as_array().unwrap().iter().map(|x| x.as_u64().unwrap()).collect();
        let mut vals = vec![];
        let mut crashes: Vec<Value> = vec![];
        for g in g0..g1 {
            for &k in &ks {
                let mut p = Permissioner::default();
                p.init_permissions_for_user(6, Some(Permissions::root()));
                p.init_permissions_for_user(5, Some(sweep_perms(g, k)));
                let (bits, crashed) = eval_all(&p, 5, 3, 4);
                vals.push(bits);
                if crashed != 0 && crashes.len() < 20 {
                    crashes.push(json!({"g": g, "k": k, "rules": crashed}));
                }
            }
        }
        println!("{}", json!({"id": t["id"], "vals": vals, "crashes": crashes}));
    }
}

/// Permissions from the JSON form used by traces:
/// {"g": bits, "streams": null | [[sid, bits, null | [[tid, bits], ...]], ...]}
pub fn perms_from_json(v: &Value) -> Permissions {
    let streams = v.get("streams").filter(|x| !x.is_null()).map(|arr| {
        let mut m = AHashMap::new();
        for e in arr.as_array().unwrap() {
            let sid = e[0].as_u64().unwrap() as u32;
            let n = e[1].as_u64().unwrap();
            let topics = e.get(2).filter(|x| !x.is_null()).map(|ts| {
                let mut tm = AHashMap::new();
                for te in ts.as_array().unwrap() {
                    tm.insert(te[0].as_u64().unwrap() as u32, tperm_of(te[1].as_u64().unwrap()));
                }
                tm
            });
            m.insert(
                sid,
                StreamPermissions {
                    manage_stream: bit(n, 0),
                    read_stream: bit(n, 1),
                    manage_topics: bit(n, 2),
                    read_topics: bit(n, 3),
                    poll_messages: bit(n, 4),
                    send_messages: bit(n, 5),
                    topics,
                },
            );
        }
        m
    });
    Permissions { global: gperm_of(v.get("g").and_then(|x| x.as_u64()).unwrap_or(0)), streams }
}
