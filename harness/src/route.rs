//! C17: partition selection on a real `Topic` (no server): sends with each partitioning kind
//! interleaved with partition additions/removals; observes which partition stored what.
use crate::common::*;
use bytes::Bytes;
use iggy::error::IggyError;
use iggy::locking::IggySharedMutFn;
use iggy::messages::send_messages::{Message, Partitioning};
use iggy::utils::byte_size::IggyByteSize;
use iggy::utils::expiry::IggyExpiry;
use iggy::utils::sizeable::Sizeable;
use iggy::utils::topic_size::MaxTopicSize;
use serde_json::{json, Value};
use server::configs::system::SystemConfig;
use server::streaming::persistence::persister::{FileWithSyncPersister, PersisterKind};
use server::streaming::storage::SystemStorage;
use server::streaming::topics::topic::Topic;
use server::streaming::utils::hash;
use std::sync::atomic::{AtomicU32, AtomicU64};
use std::sync::Arc;

async fn dump(topic: &Topic) -> Vec<Vec<u64>> {
    let n = topic.get_partitions_count();
    let mut out = vec![];
    for pid in 1..=n {
        let p = topic.get_partition(pid).unwrap();
        let p = p.read().await;
        let msgs = p.get_messages_by_offset(0, 1_000_000).await.unwrap();
        out.push(msgs.iter().map(|m| m.id as u64).collect());
    }
    out
}

pub async fn run_trace(t: &Value, dir: &std::path::Path) -> Value {
    let _ = std::fs::remove_dir_all(dir);
    std::fs::create_dir_all(dir).unwrap();
    let mut sc = SystemConfig::default();
    sc.path = dir.to_str().unwrap().to_string();
    sc.cache.enabled = false;
    let sc = Arc::new(sc);
    let storage = Arc::new(SystemStorage::new(
        sc.clone(),
        Arc::new(PersisterKind::FileWithSync(FileWithSyncPersister {})),
    ));
    std::fs::create_dir_all(sc.get_partitions_path(1, 1)).unwrap();
    let mut topic = Topic::create(
        1,
        1,
        "t",
        u(t, "parts") as u32,
        sc.clone(),
        storage,
        Arc::new(AtomicU64::new(0)),
        Arc::new(AtomicU64::new(0)),
        Arc::new(AtomicU32::new(0)),
        IggyExpiry::NeverExpire,
        Default::default(),
        MaxTopicSize::Unlimited,
        1,
    )
    .await
    .unwrap();
    for p in topic.get_partitions() {
        p.write().await.persist().await.unwrap();
    }
    let mut outs = vec![];
    for op in t["ops"].as_array().unwrap() {
        match s(op, "op") {
            "send" => {
                let ids: Vec<u64> = op["ids"].as_array().unwrap().iter().map(|x| x.as_u64().unwrap()).collect();
                let msgs: Vec<Message> = ids
                    .iter()
                    .map(|i| Message::new(Some(*i as u128), Bytes::from_static(b"x"), None))
                    .collect();
                let size = msgs.iter().map(|m| m.get_size_bytes()).sum::<IggyByteSize>();
                let mut h = 0u64;
                let partitioning = match s(op, "kind") {
                    "balanced" => Partitioning::balanced(),
                    "pid" => Partitioning::partition_id(u(op, "id") as u32),
                    _ => {
                        let key: Vec<u8> = op["key"].as_array().unwrap().iter().map(|x| x.as_u64().unwrap() as u8).collect();
                        h = hash::calculate_32(&key) as u64;
                        Partitioning::messages_key(&key).unwrap()
                    }
                };
                let before = dump(&topic).await;
                let r = topic.append_messages(size, partitioning, msgs, None).await;
                let after = dump(&topic).await;
                // which partitions changed
                let changed: Vec<u64> = (0..after.len())
                    .filter(|i| before.get(*i) != after.get(*i))
                    .map(|i| i as u64 + 1)
                    .collect();
                let (code, arg) = match &r {
                    Ok(()) => {
                        if ids.is_empty() { (1, 0) } else if changed.len() == 1 { (0, changed[0]) } else { (9, changed.len() as u64) }
                    }
                    Err(IggyError::NoPartitions(_, _)) => (2, 0),
                    Err(IggyError::PartitionNotFound(p, _, _)) => (3, *p as u64),
                    Err(_) => (8, 0),
                };
                outs.push(json!({"c": code, "a": arg, "h": h, "changed": changed}));
            }
            "add" => {
                let r = topic.add_persisted_partitions(u(op, "n") as u32).await;
                let code = match r { Ok(_) => 5, Err(IggyError::TooManyPartitions) => 4, Err(_) => 8 };
                outs.push(json!({"c": code, "a": 0, "h": 0}));
            }
            "del" => {
                let r = topic.delete_persisted_partitions(u(op, "n") as u32).await;
                let code = match r { Ok(_) => 5, Err(_) => 8 };
                outs.push(json!({"c": code, "a": 0, "h": 0}));
            }
            other => panic!("unknown op {other}"),
        }
    }
    let parts = dump(&topic).await;
    json!({"id": t["id"], "outs": outs, "parts": parts})
}

pub async fn main() {
    let dir = scratch_dir("route");
    for t in read_traces() {
        let r = run_trace(&t, &dir.join("d")).await;
        println!("{}", r);
    }
    let _ = std::fs::remove_dir_all(&dir);
}

/// `vh hash`: every stdin line is a JSON array of bytes; prints xxHash32 as the server computes it.
pub fn hash_main() {
    for t in read_traces() {
        let key: Vec<u8> = t.as_array().unwrap().iter().map(|x| x.as_u64().unwrap() as u8).collect();
        println!("{}", hash::calculate_32(&key));
    }
}
