//! Server mode: the real `System` in-process behind its real TCP listener, driven by the real SDK
//! client(s); a white-box handle on the `SharedSystem` for background jobs and observations.
//! One trace = {"id", "cfg": {...}, "ops": [...]}; one observation per op.
use crate::common::*;
use bytes::Bytes;
use iggy::client::{
    Client, ConsumerGroupClient, ConsumerOffsetClient, MessageClient, PartitionClient, PersonalAccessTokenClient, StreamClient,
    SystemClient, TopicClient, UserClient,
};
use iggy::clients::client::IggyClient;
use iggy::compression::compression_algorithm::CompressionAlgorithm;
use iggy::confirmation::Confirmation;
use iggy::consumer::Consumer;
use iggy::error::IggyError;
use iggy::identifier::Identifier;
use iggy::locking::IggySharedMutFn;
use iggy::messages::poll_messages::PollingStrategy;
use iggy::messages::send_messages::{Message, Partitioning};
use iggy::models::header::{HeaderKey, HeaderValue};
use iggy::models::messages::PolledMessages;
use iggy::models::permissions::Permissions;
use iggy::models::user_status::UserStatus;
use iggy::utils::byte_size::IggyByteSize;
use iggy::utils::checksum;
use iggy::utils::duration::IggyDuration;
use iggy::utils::expiry::IggyExpiry;
use iggy::utils::timestamp::verif_clock;
use iggy::utils::topic_size::MaxTopicSize;
use serde_json::{json, Value};
use server::channels::commands::maintain_messages::{MaintainMessagesCommand, MaintainMessagesExecutor};
use server::channels::server_command::ServerCommand;
use server::configs::server::{DataMaintenanceConfig, PersonalAccessTokenConfig};
use server::configs::system::SystemConfig;
use server::configs::tcp::TcpConfig;
use server::streaming::systems::system::{SharedSystem, System};
use std::collections::HashMap;
use std::path::{Path, PathBuf};
use std::str::FromStr;
use std::sync::Arc;

pub const T0: u64 = 1_700_000_000_000_000;

pub fn ident(v: &Value) -> Identifier {
    match v {
        Value::Number(n) => Identifier::numeric(n.as_u64().unwrap() as u32).unwrap_or_else(|_| Identifier::named("__zero__").unwrap()),
        Value::String(s) => Identifier::named(s).unwrap(),
        _ => Identifier::numeric(1).unwrap(),
    }
}

pub fn err_json(e: &IggyError) -> Value {
    // the HTTP client wraps the server's error (id, code) in a generic error: unwrap it so both transports read alike
    match e {
        IggyError::HttpResponseError(status, reason) => {
            if let Ok(v) = serde_json::from_str::<Value>(reason) {
                if let (Some(id), Some(code)) = (v.get("id").and_then(|x| x.as_u64()), v.get("code").and_then(|x| x.as_str())) {
                    return json!({"r": "err", "code": id, "name": code, "http": status});
                }
            }
            json!({"r": "err", "code": e.as_code(), "name": e.as_string(), "http": status, "body": reason})
        }
        IggyError::ResourceNotFound(reason) => {
            // the HTTP client turns every 404 into this error, with the server's own error (id, code) as the text
            if let Ok(v) = serde_json::from_str::<Value>(reason) {
                if let (Some(id), Some(code)) = (v.get("id").and_then(|x| x.as_u64()), v.get("code").and_then(|x| x.as_str())) {
                    if code != "resource_not_found" && code != "not_found" {
                        return json!({"r": "err", "code": id, "name": code, "http": 404});
                    }
                }
            }
            json!({"r": "err", "code": e.as_code(), "name": "resource_not_found"})
        }
        _ => json!({"r": "err", "code": e.as_code(), "name": e.as_string()}),
    }
}

pub fn payload_for(id: u64, len: usize) -> Vec<u8> {
    (0..len).map(|i| ((id as usize).wrapping_mul(31).wrapping_add(i * 7) & 0xff) as u8).collect()
}

pub fn build_config(dir: &Path, cfg: &Value) -> Arc<SystemConfig> {
    let mut sc = SystemConfig::default();
    sc.path = dir.to_str().unwrap().to_string();
    if let Some(v) = cfg.get("req") {
        sc.partition.messages_required_to_save = v.as_u64().unwrap() as u32;
    }
    if let Some(v) = cfg.get("seg_size") {
        sc.segment.size = IggyByteSize::from(v.as_u64().unwrap());
    }
    sc.cache.enabled = cfg.get("cache").and_then(|v| v.as_bool()).unwrap_or(false);
    if let Some(v) = cfg.get("idx_cache") {
        sc.segment.cache_indexes = v.as_bool().unwrap();
    }
    if let Some(v) = cfg.get("fsync") {
        sc.partition.enforce_fsync = v.as_bool().unwrap();
    }
    if cfg.get("nowait").and_then(|v| v.as_bool()).unwrap_or(false) {
        sc.segment.server_confirmation = Confirmation::NoWait;
    }
    if let Some(v) = cfg.get("dedup") {
        if v.as_bool().unwrap_or(false) {
            sc.message_deduplication.enabled = true;
            sc.message_deduplication.max_entries = cfg.get("dedup_max").and_then(|v| v.as_u64()).unwrap_or(100_000);
            sc.message_deduplication.expiry = IggyDuration::from_str(cfg.get("dedup_expiry").and_then(|v| v.as_str()).unwrap_or("1h")).unwrap();
        }
    }
    if let Some(v) = cfg.get("delete_oldest") {
        sc.topic.delete_oldest_segments = v.as_bool().unwrap();
    }
    if let Some(v) = cfg.get("enc_key") {
        sc.encryption.enabled = true;
        sc.encryption.key = v.as_str().unwrap().to_string();
    }
    if let Some(v) = cfg.get("validate_checksum") {
        sc.partition.validate_checksum = v.as_bool().unwrap();
    }
    Arc::new(sc)
}

pub fn expiry_of(v: Option<&Value>) -> IggyExpiry {
    match v {
        None | Some(Value::Null) => IggyExpiry::NeverExpire,
        Some(Value::String(s)) if s == "default" => IggyExpiry::ServerDefault,
        Some(x) => IggyExpiry::ExpireDuration(IggyDuration::from(x.as_u64().unwrap())),
    }
}

pub fn max_size_of(v: Option<&Value>) -> MaxTopicSize {
    match v {
        None | Some(Value::Null) => MaxTopicSize::Unlimited,
        Some(Value::String(s)) if s == "default" => MaxTopicSize::ServerDefault,
        Some(x) => MaxTopicSize::Custom(IggyByteSize::from(x.as_u64().unwrap())),
    }
}

pub struct Srv {
    pub dir: PathBuf,
    pub cfg: Value,
    pub config: Arc<SystemConfig>,
    pub shared: SharedSystem,
    pub addr: std::net::SocketAddr,
    pub http_addr: std::net::SocketAddr,
    pub down: bool,
    pub clients: HashMap<String, IggyClient>,
    pub clock: u64,
    pub tokens: HashMap<String, String>,
}

async fn start_system(config: Arc<SystemConfig>) -> Result<(SharedSystem, std::net::SocketAddr, std::net::SocketAddr), IggyError> {
    // a real restart is a new process: process-global counters start over
    server::streaming::systems::streams::verif_reset_stream_id_counter();
    // a configuration the server refuses by panicking at start-up is a refused start, not a harness failure
    let prev_hook = std::panic::take_hook();
    std::panic::set_hook(Box::new(|_| {}));
    let built = std::panic::catch_unwind(std::panic::AssertUnwindSafe(|| System::new(config, DataMaintenanceConfig::default(), PersonalAccessTokenConfig::default())));
    std::panic::set_hook(prev_hook);
    let mut system = match built {
        Ok(sy) => sy,
        Err(_) => return Err(IggyError::InvalidConfiguration),
    };
    system.init().await?;
    let shared = SharedSystem::new(system);
    let mut tc = TcpConfig::default();
    tc.address = "127.0.0.1:0".to_string();
    let addr = server::tcp::tcp_server::start(tc, shared.clone()).await;
    // the HTTP API of the same system (its handlers are separate code); the harness clock is pinned in the past, so the
    // access tokens get a lifetime that reaches beyond the real date
    let mut hc = server::configs::http::HttpConfig::default();
    hc.address = "127.0.0.1:0".to_string();
    hc.jwt.access_token_expiry = IggyExpiry::ExpireDuration(IggyDuration::from_str("36500days").unwrap());
    let http_addr = server::http::http_server::start(hc, shared.clone()).await;
    Ok((shared, addr, http_addr))
}

impl Srv {
    pub async fn start(dir: &Path, cfg: &Value) -> Result<Srv, IggyError> {
        let config = build_config(dir, cfg);
        let (shared, addr, http_addr) = start_system(config.clone()).await?;
        Ok(Srv { dir: dir.to_path_buf(), cfg: cfg.clone(), config, shared, addr, http_addr, down: false, clients: HashMap::new(), clock: T0, tokens: HashMap::new() })
    }

    pub async fn restart(&mut self, graceful: bool, new_cfg: Option<&Value>) -> Result<(), IggyError> {
        self.restart_ex(graceful, new_cfg, false).await
    }

    pub async fn restart_ex(&mut self, graceful: bool, new_cfg: Option<&Value>, drop_index: bool) -> Result<(), IggyError> {
        for (_, c) in self.clients.drain() {
            let _ = c.disconnect().await;
        }
        if graceful {
            self.shared.write().await.shutdown().await?;
        }
        if drop_index {
            // the index files disappear while the server is down: they are rebuilt from the logs at start-up
            fn walk(p: &Path) {
                if let Ok(rd) = std::fs::read_dir(p) {
                    for e in rd.flatten() {
                        let path = e.path();
                        if path.is_dir() {
                            walk(&path);
                        } else if path.extension().map(|x| x == "index").unwrap_or(false) {
                            let _ = std::fs::remove_file(&path);
                        }
                    }
                }
            }
            walk(&self.dir.join("streams"));
        }
        if let Some(c) = new_cfg {
            let mut merged = self.cfg.clone();
            for (k, v) in c.as_object().unwrap() {
                merged[k] = v.clone();
            }
            self.cfg = merged;
            self.config = build_config(&self.dir, &self.cfg);
        }
        let (shared, addr, http_addr) = start_system(self.config.clone()).await?;
        self.shared = shared;
        self.addr = addr;
        self.http_addr = http_addr;
        Ok(())
    }

    async fn client(&mut self, name: &str) -> &IggyClient {
        if !self.clients.contains_key(name) {
            // clients whose name starts with "http" talk to the HTTP API, all others to the binary TCP protocol
            let c = if name.starts_with("http") {
                IggyClient::builder().with_http().with_api_url(format!("http://{}", self.http_addr)).build().unwrap()
            } else {
                IggyClient::builder().with_tcp().with_server_address(self.addr.to_string()).build().unwrap()
            };
            c.connect().await.unwrap();
            if name == "root" || name == "httproot" {
                c.login_user("iggy", "iggy").await.unwrap();
            }
            self.clients.insert(name.to_string(), c);
        }
        self.clients.get(name).unwrap()
    }

    fn consumer_of(op: &Value) -> Consumer {
        let c = &op["consumer"];
        if c.is_null() {
            return Consumer::default();
        }
        let id = ident(&c["id"]);
        if s(c, "kind") == "group" {
            Consumer::group(id)
        } else {
            Consumer::new(id)
        }
    }

    fn strategy_of(op: &Value) -> PollingStrategy {
        let v = u(op, "value");
        match s(op, "kind") {
            "offset" => PollingStrategy::offset(v),
            "timestamp" => PollingStrategy::timestamp(v.into()),
            "first" => PollingStrategy::first(),
            "last" => PollingStrategy::last(),
            _ => PollingStrategy::next(),
        }
    }

    fn polled_json(p: &PolledMessages) -> Value {
        let msgs: Vec<Value> = p
            .messages
            .iter()
            .map(|m| {
                let id = m.id as u64;
                let pok = m.payload.as_ref() == payload_for(id, m.payload.len()).as_slice();
                let cok = checksum::calculate(&m.payload) == m.checksum;
                let mut hdr: Vec<(String, String)> = m
                    .headers
                    .as_ref()
                    .map(|h| h.iter().map(|(k, v)| (k.as_str().to_string(), format!("{:?}:{:?}", v.kind, v.value))).collect())
                    .unwrap_or_default();
                hdr.sort();
                json!({"o": m.offset, "id": id, "ts": m.timestamp, "len": m.payload.len(), "pok": pok, "cok": cok, "hdr": hdr.len()})
            })
            .collect();
        json!({"r": "ok", "pid": p.partition_id, "cur": p.current_offset, "msgs": msgs})
    }

    pub async fn dump_partition(&self, stream: &Value, topic: &Value, pid: u32) -> Value {
        Self::dump_partition_of(&self.shared, stream, topic, pid).await
    }

    pub async fn dump_partition_of(shared: &SharedSystem, stream: &Value, topic: &Value, pid: u32) -> Value {
        let system = shared.read().await;
        let Ok(st) = system.get_stream(&ident(stream)) else { return json!({"r": "err", "name": "no_stream"}) };
        let Ok(tp) = st.get_topic(&ident(topic)) else { return json!({"r": "err", "name": "no_topic"}) };
        let Ok(p) = tp.get_partition(pid) else { return json!({"r": "err", "name": "no_partition"}) };
        let p = p.read().await;
        let mut segs = vec![];
        for sg in p.get_segments() {
            let acc = sg.unsaved_messages.as_ref().map(|a| json!([a.batch_base_offset(), a.batch_max_offset(), a.unsaved_messages_count()]));
            let log_len = std::fs::metadata(&sg.log_path).map(|m| m.len()).unwrap_or(u64::MAX);
            let idx_len = std::fs::metadata(&sg.index_path).map(|m| m.len()).unwrap_or(u64::MAX);
            let idx: Option<Vec<Value>> = sg.indexes.as_ref().map(|v| v.iter().map(|i| json!([i.offset, i.position, i.timestamp])).collect());
            segs.push(json!({"start": sg.start_offset, "cur": sg.current_offset, "end": sg.end_offset, "closed": sg.is_closed,
                "size": sg.size_bytes.as_bytes_u64(), "last_pos": sg.last_index_position, "acc": acc, "log_len": log_len, "idx_len": idx_len,
                "idx": idx, "start_ts": sg.start_timestamp, "end_ts": sg.end_timestamp}));
        }
        let cache = p.cache.as_ref().map(|c| if c.is_empty() { json!([]) } else { json!([c[0].offset, c[c.len() - 1].offset, c.len()]) });
        json!({"r": "ok", "cur": p.current_offset, "inc": p.should_increment_offset, "unsaved": p.unsaved_messages_count, "segs": segs,
            "cache": cache, "msgs_count": p.get_messages_count(), "size": p.size_bytes.load(std::sync::atomic::Ordering::SeqCst),
            "segs_count": p.get_segments_count()})
    }

    pub async fn exec(&mut self, op: &Value) -> Value {
        self.clock += 1000;
        verif_clock::set(self.clock);
        let cname = op.get("c").and_then(|v| v.as_str()).unwrap_or("root").to_string();
        let name = s(op, "op").to_string();
        if self.down && !matches!(name.as_str(), "restart" | "crash" | "tree" | "grep" | "advance" | "corrupt_last_log" | "remove_indexes") {
            return json!({"r": "err", "code": 0, "name": "server_down"});
        }
        match name.as_str() {
            // ---------------- white-box / control
            "advance" => {
                self.clock += u(op, "us");
                verif_clock::set(self.clock);
                json!({"r": "ok", "now": self.clock})
            }
            "restart" => {
                let graceful = op.get("graceful").and_then(|v| v.as_bool()).unwrap_or(true) && !self.down;
                let drop_index = op.get("drop_index").and_then(|v| v.as_bool()).unwrap_or(false);
                match self.restart_ex(graceful, op.get("cfg"), drop_index).await {
                    Ok(()) => {
                        self.down = false;
                        json!({"r": "ok"})
                    }
                    Err(e) => {
                        // the server did not come up: nothing answers until a later start succeeds
                        self.down = true;
                        err_json(&e)
                    }
                }
            }
            "crash" => {
                // the process dies: nothing is flushed or shut down; then the surviving files lose the given tails
                for (_, c) in self.clients.drain() {
                    let _ = c.disconnect().await;
                }
                let mut applied = vec![];
                for cut in op["cuts"].as_array().map(|a| a.as_slice()).unwrap_or(&[]) {
                    let path = self.dir.join(s(cut, "path"));
                    match cut.get("len").and_then(|v| v.as_u64()) {
                        Some(n) => {
                            if let Ok(f) = std::fs::OpenOptions::new().write(true).open(&path) {
                                let before = f.metadata().map(|m| m.len()).unwrap_or(0);
                                let _ = f.set_len(n.min(before));
                                applied.push(json!([s(cut, "path"), before, n.min(before)]));
                            }
                        }
                        None => {
                            let _ = std::fs::remove_file(&path);
                            applied.push(json!([s(cut, "path"), null, null]));
                        }
                    }
                }
                match start_system(self.config.clone()).await {
                    Ok((shared, addr, http_addr)) => {
                        self.down = false;
                        self.shared = shared;
                        self.addr = addr;
                        self.http_addr = http_addr;
                        json!({"r": "ok", "applied": applied})
                    }
                    Err(e) => {
                        self.down = true;
                        let mut v = err_json(&e);
                        v["applied"] = json!(applied);
                        v
                    }
                }
            }
            "corrupt_last_log" => {
                // flips one bit in the last byte of the newest non-empty log file of a partition (a stored payload byte)
                let dir = self.dir.join(format!("streams/{}/topics/{}/partitions/{}", u(op, "stream"), u(op, "topic"), u(op, "partition")));
                let mut logs: Vec<std::path::PathBuf> = std::fs::read_dir(&dir).map(|rd| rd.flatten().map(|e| e.path()).filter(|p| p.extension().map(|x| x == "log").unwrap_or(false)
                    && std::fs::metadata(p).map(|m| m.len() > 0).unwrap_or(false)).collect()).unwrap_or_default();
                logs.sort();
                match logs.last() {
                    None => json!({"r": "err", "name": "no_log"}),
                    Some(p) => {
                        let mut b = std::fs::read(p).unwrap();
                        let n = b.len();
                        b[n - 1] ^= 1;
                        std::fs::write(p, &b).unwrap();
                        json!({"r": "ok", "file": p.file_name().unwrap().to_string_lossy(), "len": n})
                    }
                }
            }
            "stress" => crate::stress::stress(self.addr, self.shared.clone(), op).await,
            "admin_stress" => crate::stress::admin_stress(self.addr, op).await,
            "remove_indexes" => {
                // the index files of a partition disappear while the server is down (they are rebuilt from the logs at start-up)
                let dir = self.dir.join(format!("streams/{}/topics/{}/partitions/{}", u(op, "stream"), u(op, "topic"), u(op, "partition")));
                let mut n = 0;
                if let Ok(rd) = std::fs::read_dir(&dir) {
                    for e in rd.flatten() {
                        if e.path().extension().map(|x| x == "index").unwrap_or(false) && std::fs::remove_file(e.path()).is_ok() {
                            n += 1;
                        }
                    }
                }
                json!({"r": "ok", "removed": n})
            }
            "save" => match self.shared.read().await.persist_messages().await {
                Ok(n) => json!({"r": "ok", "n": n}),
                Err(e) => err_json(&e),
            },
            "maintain" => {
                let mut ex = MaintainMessagesExecutor;
                ex.execute(&self.shared, MaintainMessagesCommand::verif_new(true, false)).await;
                let d = self.dump_partition(&json!(1), &json!(1), 1).await;
                let lo = d["segs"].get(0).map(|s| s["start"].clone()).unwrap_or(json!(0));
                json!({"r": "ok", "lo": lo})
            }
            "evict" => {
                let system = self.shared.read().await;
                let st = system.get_stream(&ident(&op["stream"])).unwrap();
                let tp = st.get_topic(&ident(&op["topic"])).unwrap();
                let p = tp.get_partition(u(op, "partition") as u32).unwrap();
                let mut p = p.write().await;
                if let Some(c) = p.cache.as_mut() {
                    c.evict_by_size(u(op, "bytes"));
                }
                json!({"r": "ok"})
            }
            "dump" => self.dump_partition(&op["stream"], &op["topic"], u(op, "partition") as u32).await,
            "tree" => {
                let mut files = vec![];
                fn walk(p: &Path, base: &Path, out: &mut Vec<(String, u64)>) {
                    if let Ok(rd) = std::fs::read_dir(p) {
                        for e in rd.flatten() {
                            let path = e.path();
                            if path.is_dir() {
                                walk(&path, base, out);
                            } else {
                                out.push((path.strip_prefix(base).unwrap().to_string_lossy().to_string(), e.metadata().map(|m| m.len()).unwrap_or(0)));
                            }
                        }
                    }
                }
                walk(&self.dir, &self.dir, &mut files);
                files.sort();
                json!({"r": "ok", "files": files})
            }
            "raw" => {
                // a raw TCP connection: optional proper login frame first, then arbitrary bytes; reports what came back
                use iggy::bytes_serializable::BytesSerializable;
                use iggy::command::Command;
                use tokio::io::{AsyncReadExt, AsyncWriteExt};
                let mut out = json!({"r": "ok"});
                match tokio::net::TcpStream::connect(self.addr).await {
                    Err(e) => json!({"r": "err", "name": format!("connect: {e}")}),
                    Ok(mut sock) => {
                        let mut frames: Vec<Vec<u8>> = vec![];
                        if op.get("login").and_then(|v| v.as_bool()).unwrap_or(false) {
                            let cmd = iggy::users::login_user::LoginUser { username: "iggy".into(), password: "iggy".into(), version: None, context: None };
                            let payload = cmd.to_bytes();
                            let mut f = vec![];
                            f.extend_from_slice(&((payload.len() + 4) as u32).to_le_bytes());
                            f.extend_from_slice(&cmd.code().to_le_bytes());
                            f.extend_from_slice(&payload);
                            frames.push(f);
                        }
                        let h = s(op, "hex");
                        frames.push((0..h.len() / 2).map(|i| u8::from_str_radix(&h[2 * i..2 * i + 2], 16).unwrap()).collect());
                        let mut replies = vec![];
                        for f in frames {
                            if sock.write_all(&f).await.is_err() {
                                replies.push(json!("write_failed"));
                                break;
                            }
                            let mut head = [0u8; 8];
                            match tokio::time::timeout(std::time::Duration::from_millis(300), sock.read_exact(&mut head)).await {
                                Err(_) => replies.push(json!("no_reply")),
                                Ok(Err(_)) => replies.push(json!("closed")),
                                Ok(Ok(_)) => {
                                    let status = u32::from_le_bytes(head[0..4].try_into().unwrap());
                                    let len = u32::from_le_bytes(head[4..8].try_into().unwrap()) as usize;
                                    let mut body = vec![0u8; len.min(1 << 20)];
                                    let _ = tokio::time::timeout(std::time::Duration::from_millis(300), sock.read_exact(&mut body)).await;
                                    replies.push(json!({"status": status, "len": len}));
                                }
                            }
                        }
                        out["replies"] = json!(replies);
                        out
                    }
                }
            }
            "raw_cmd" => {
                // a request encoded by the SDK, sent over a raw socket after a login: the server's raw response bytes
                use iggy::bytes_serializable::BytesSerializable;
                use iggy::command::Command;
                use tokio::io::{AsyncReadExt, AsyncWriteExt};
                let stream = ident(&op["stream"]);
                let topic = ident(&op["topic"]);
                let (code, payload) = match s(op, "kind_of") {
                    "poll" => {
                        let cmd = iggy::messages::poll_messages::PollMessages {
                            consumer: Self::consumer_of(op),
                            stream_id: stream,
                            topic_id: topic,
                            partition_id: op.get("partition").and_then(|v| v.as_u64()).map(|v| v as u32),
                            strategy: Self::strategy_of(op),
                            count: u(op, "count") as u32,
                            auto_commit: false,
                        };
                        (cmd.code(), cmd.to_bytes())
                    }
                    _ => {
                        let cmd = iggy::consumer_groups::get_consumer_group::GetConsumerGroup { stream_id: stream, topic_id: topic, group_id: ident(&op["group"]) };
                        (cmd.code(), cmd.to_bytes())
                    }
                };
                let login = iggy::users::login_user::LoginUser { username: "iggy".into(), password: "iggy".into(), version: None, context: None };
                let mut frames: Vec<Vec<u8>> = vec![];
                for (c, p) in [(login.code(), login.to_bytes()), (code, payload)] {
                    let mut f = vec![];
                    f.extend_from_slice(&((p.len() + 4) as u32).to_le_bytes());
                    f.extend_from_slice(&c.to_le_bytes());
                    f.extend_from_slice(&p);
                    frames.push(f);
                }
                match tokio::net::TcpStream::connect(self.addr).await {
                    Err(e) => json!({"r": "err", "name": format!("connect: {e}")}),
                    Ok(mut sock) => {
                        let mut last = json!({"r": "err", "name": "no_reply"});
                        for f in frames {
                            if sock.write_all(&f).await.is_err() {
                                return json!({"r": "err", "name": "write_failed"});
                            }
                            let mut head = [0u8; 8];
                            match tokio::time::timeout(std::time::Duration::from_millis(3000), sock.read_exact(&mut head)).await {
                                Ok(Ok(_)) => {
                                    let status = u32::from_le_bytes(head[0..4].try_into().unwrap());
                                    let len = u32::from_le_bytes(head[4..8].try_into().unwrap()) as usize;
                                    let mut body = vec![0u8; len.min(1 << 24)];
                                    if tokio::time::timeout(std::time::Duration::from_millis(3000), sock.read_exact(&mut body)).await.is_err() {
                                        return json!({"r": "err", "name": "short_body"});
                                    }
                                    last = json!({"r": "ok", "status": status, "body": hexs(&body)});
                                }
                                _ => return json!({"r": "err", "name": "no_reply"}),
                            }
                        }
                        last
                    }
                }
            }
            "http_raw" => {
                // one HTTP/1.1 request written by hand (no client library in between): method, path, optional bearer token and JSON body
                use tokio::io::{AsyncReadExt, AsyncWriteExt};
                let body = op.get("body").and_then(|v| v.as_str()).unwrap_or("");
                let mut req = format!("{} {} HTTP/1.1\r\nHost: localhost\r\nConnection: close\r\n", s(op, "method"), s(op, "path"));
                if let Some(b) = op.get("bearer").and_then(|v| v.as_str()) {
                    req.push_str(&format!("Authorization: Bearer {b}\r\n"));
                }
                if !body.is_empty() {
                    req.push_str(&format!("Content-Type: application/json\r\nContent-Length: {}\r\n", body.len()));
                }
                req.push_str("\r\n");
                req.push_str(body);
                match tokio::net::TcpStream::connect(self.http_addr).await {
                    Err(e) => json!({"r": "err", "name": format!("connect: {e}")}),
                    Ok(mut sock) => {
                        if sock.write_all(req.as_bytes()).await.is_err() {
                            return json!({"r": "err", "name": "write_failed"});
                        }
                        let mut buf = vec![];
                        let _ = tokio::time::timeout(std::time::Duration::from_millis(3000), sock.read_to_end(&mut buf)).await;
                        let text = String::from_utf8_lossy(&buf).to_string();
                        let status = text.split_whitespace().nth(1).and_then(|x| x.parse::<u32>().ok()).unwrap_or(0);
                        json!({"r": "ok", "status": status, "len": buf.len()})
                    }
                }
            }
            "grep" => {
                // byte search of every file under the data directory for clear-text secrets
                let mut needles: Vec<String> = op.get("needles").and_then(|v| v.as_array()).map(|a| a.iter().map(|x| x.as_str().unwrap().to_string()).collect()).unwrap_or_default();
                if op.get("tokens").and_then(|v| v.as_bool()).unwrap_or(false) {
                    needles.extend(self.tokens.values().cloned());
                }
                // payload needles: [id, len] pairs -> the deterministic payload bytes of that message
                let mut byte_needles: Vec<(String, Vec<u8>)> = needles.iter().map(|n| (n.clone(), n.as_bytes().to_vec())).collect();
                if let Some(ps) = op.get("payloads").and_then(|v| v.as_array()) {
                    for p in ps {
                        let (id, len) = (p[0].as_u64().unwrap(), p[1].as_u64().unwrap() as usize);
                        byte_needles.push((format!("payload:{id}:{len}"), payload_for(id, len)));
                    }
                }
                let mut hits = vec![];
                let mut files = 0u64;
                let mut bytes = 0u64;
                fn walk2(p: &Path, out: &mut Vec<PathBuf>) {
                    if let Ok(rd) = std::fs::read_dir(p) {
                        for e in rd.flatten() {
                            let path = e.path();
                            if path.is_dir() { walk2(&path, out); } else { out.push(path); }
                        }
                    }
                }
                let mut all = vec![];
                walk2(&self.dir, &mut all);
                for f in all {
                    if let Ok(data) = std::fs::read(&f) {
                        files += 1;
                        bytes += data.len() as u64;
                        for (n, nb) in &byte_needles {
                            if !nb.is_empty() && data.windows(nb.len()).any(|w| w == nb.as_slice()) {
                                hits.push(json!([n, f.strip_prefix(&self.dir).unwrap().to_string_lossy()]));
                            }
                        }
                    }
                }
                json!({"r": "ok", "hits": hits, "files": files, "bytes": bytes, "needles": needles.len()})
            }
            "connect" => {
                self.client(&cname).await;
                json!({"r": "ok"})
            }
            "disconnect" => {
                if let Some(c) = self.clients.remove(&cname) {
                    let _ = c.disconnect().await;
                }
                // give the server a moment to run its disconnect handler
                tokio::time::sleep(std::time::Duration::from_millis(20)).await;
                json!({"r": "ok"})
            }
            _ => self.exec_client(&cname, &name, op).await,
        }
    }

    async fn exec_client(&mut self, cname: &str, name: &str, op: &Value) -> Value {
        let tokens = self.tokens.clone();
        let addr = self.addr;
        if (name == "consume" || name == "produce") && op.get("fresh").and_then(|v| v.as_bool()).unwrap_or(false) {
            // a connection of its own, closed afterwards: a request cancelled in flight cannot disturb later operations
            let c = IggyClient::builder().with_tcp().with_server_address(self.addr.to_string()).build().unwrap();
            c.connect().await.unwrap();
            c.login_user("iggy", "iggy").await.unwrap();
            let r = if name == "consume" { crate::client::consume(&c, self.addr, op).await } else { crate::client::produce(&c, op).await };
            let _ = c.disconnect().await;
            return r;
        }
        let shared_wb = self.shared.clone();
        let c = self.client(cname).await;
        let stream = ident(&op["stream"]);
        let topic = ident(&op["topic"]);
        macro_rules! unit {
            ($e:expr) => {
                match $e {
                    Ok(_) => json!({"r": "ok"}),
                    Err(e) => err_json(&e),
                }
            };
        }
        match name {
            "ping" => unit!(c.ping().await),
            "login" => match c.login_user(s(op, "user"), s(op, "password")).await {
                Ok(i) => json!({"r": "ok", "uid": i.user_id}),
                Err(e) => err_json(&e),
            },
            "logout" => unit!(c.logout_user().await),
            "create_stream" => match c.create_stream(s(op, "name"), op.get("id").and_then(|v| v.as_u64()).map(|v| v as u32)).await {
                Ok(d) => json!({"r": "ok", "id": d.id}),
                Err(e) => err_json(&e),
            },
            "update_stream" => unit!(c.update_stream(&stream, s(op, "name")).await),
            "delete_stream" => unit!(c.delete_stream(&stream).await),
            "purge_stream" => unit!(c.purge_stream(&stream).await),
            "create_topic" => match c
                .create_topic(
                    &stream,
                    s(op, "name"),
                    u(op, "parts") as u32,
                    CompressionAlgorithm::None,
                    None,
                    op.get("id").and_then(|v| v.as_u64()).map(|v| v as u32),
                    expiry_of(op.get("expiry")),
                    max_size_of(op.get("max_size")),
                )
                .await
            {
                Ok(d) => json!({"r": "ok", "id": d.id}),
                Err(e) => err_json(&e),
            },
            "update_topic" => unit!(
                c.update_topic(&stream, &topic, s(op, "name"), CompressionAlgorithm::None, None, expiry_of(op.get("expiry")), max_size_of(op.get("max_size")))
                    .await
            ),
            "delete_topic" => unit!(c.delete_topic(&stream, &topic).await),
            "purge_topic" => unit!(c.purge_topic(&stream, &topic).await),
            "create_partitions" => unit!(c.create_partitions(&stream, &topic, u(op, "n") as u32).await),
            "delete_partitions" => unit!(c.delete_partitions(&stream, &topic, u(op, "n") as u32).await),
            "produce" => crate::client::produce(c, op).await,
            "consume" => crate::client::consume(c, addr, op).await,
            "send" => {
                let mut msgs: Vec<Message> = op["msgs"]
                    .as_array()
                    .unwrap()
                    .iter()
                    .map(|m| {
                        let id = u(m, "id");
                        let mut headers = m.get("hdr").and_then(|h| h.as_u64()).filter(|n| *n > 0).map(|n| {
                            let mut h = HashMap::new();
                            for i in 0..n {
                                h.insert(HeaderKey::new(&format!("k{i}")).unwrap(), HeaderValue::from_uint64(id + i).unwrap());
                            }
                            h
                        });
                        // explicit headers: [key, kind code, value bytes in hex]
                        if let Some(list) = m.get("headers").and_then(|h| h.as_array()) {
                            let mut h = HashMap::new();
                            for e in list {
                                let kind = iggy::models::header::HeaderKind::from_code(e[1].as_u64().unwrap() as u8).unwrap();
                                h.insert(HeaderKey::new(e[0].as_str().unwrap()).unwrap(), HeaderValue { kind, value: Bytes::from(unhex(e[2].as_str().unwrap())) });
                            }
                            headers = Some(h);
                        }
                        Message::new(Some(id as u128), Bytes::from(payload_for(id, u(m, "len") as usize)), headers)
                    })
                    .collect();
                let p = &op["part"];
                let partitioning = match s(p, "kind") {
                    "balanced" => Partitioning::balanced(),
                    "key" => {
                        let key: Vec<u8> = p["key"].as_array().unwrap().iter().map(|x| x.as_u64().unwrap() as u8).collect();
                        Partitioning::messages_key(&key).unwrap()
                    }
                    _ => Partitioning::partition_id(u(p, "id") as u32),
                };
                unit!(c.send_messages(&stream, &topic, &partitioning, &mut msgs).await)
            }
            "poll" => {
                let consumer = Self::consumer_of(op);
                let strategy = Self::strategy_of(op);
                let part = op.get("partition").and_then(|v| v.as_u64()).map(|v| v as u32);
                match c.poll_messages(&stream, &topic, part, &consumer, &strategy, u(op, "count") as u32, op.get("auto_commit").and_then(|v| v.as_bool()).unwrap_or(false)).await {
                    Ok(p) => {
                        let mut v = Self::polled_json(&p);
                        if op.get("full").and_then(|x| x.as_bool()).unwrap_or(false) {
                            // every field of every message as the client decoded it
                            let full: Vec<Value> = p
                                .messages
                                .iter()
                                .map(|m| {
                                    let mut hdrs: Vec<(String, u8, String)> = m
                                        .headers
                                        .as_ref()
                                        .map(|h| h.iter().map(|(k, v)| (k.as_str().to_string(), v.kind.as_code(), hexs(&v.value))).collect())
                                        .unwrap_or_default();
                                    hdrs.sort();
                                    json!({"o": m.offset, "id": m.id.to_string(), "state": m.state.as_code(), "ts": m.timestamp, "checksum": m.checksum,
                                        "payload": hexs(&m.payload), "hdrs": hdrs})
                                })
                                .collect();
                            v["full"] = json!(full);
                        }
                        v
                    }
                    Err(e) => err_json(&e),
                }
            }
            "poll_settle" => {
                // under no-wait confirmation an acknowledged batch becomes readable when the background writer gets to it: the poll is
                // repeated (bounded) until it returns everything up to the current offset
                let consumer = Self::consumer_of(op);
                let strategy = Self::strategy_of(op);
                let part = op.get("partition").and_then(|v| v.as_u64()).map(|v| v as u32);
                let mut last = json!({"r": "err", "name": "no_poll"});
                for _ in 0..250 {
                    match c.poll_messages(&stream, &topic, part, &consumer, &strategy, u(op, "count") as u32, false).await {
                        Ok(p) => {
                            let complete = p.messages.last().map(|m| m.offset == p.current_offset).unwrap_or(false);
                            last = Self::polled_json(&p);
                            if complete {
                                break;
                            }
                        }
                        Err(e) => {
                            last = err_json(&e);
                            break;
                        }
                    }
                    tokio::time::sleep(std::time::Duration::from_millis(20)).await;
                }
                last
            }
            "poll_store" => {
                // a poll without auto-commit followed by a manual commit of the last message received, without naming the partition
                let consumer = Self::consumer_of(op);
                let strategy = Self::strategy_of(op);
                match c.poll_messages(&stream, &topic, None, &consumer, &strategy, u(op, "count") as u32, false).await {
                    Ok(p) => {
                        let mut v = Self::polled_json(&p);
                        if let Some(last) = p.messages.last() {
                            v["store"] = match c.store_consumer_offset(&consumer, &stream, &topic, None, last.offset).await {
                                Ok(_) => json!("ok"),
                                Err(e) => err_json(&e),
                            };
                        }
                        v
                    }
                    Err(e) => err_json(&e),
                }
            }
            "flush" => unit!(c.flush_unsaved_buffer(&stream, &topic, u(op, "partition") as u32, op.get("fsync").and_then(|v| v.as_bool()).unwrap_or(false)).await),
            "store_offset" => {
                let consumer = Self::consumer_of(op);
                let part = op.get("partition").and_then(|v| v.as_u64()).map(|v| v as u32);
                unit!(c.store_consumer_offset(&consumer, &stream, &topic, part, u(op, "offset")).await)
            }
            "get_offset" => {
                let consumer = Self::consumer_of(op);
                let part = op.get("partition").and_then(|v| v.as_u64()).map(|v| v as u32);
                match c.get_consumer_offset(&consumer, &stream, &topic, part).await {
                    Ok(Some(i)) => json!({"r": "ok", "some": true, "pid": i.partition_id, "cur": i.current_offset, "stored": i.stored_offset}),
                    Ok(None) => json!({"r": "ok", "some": false}),
                    Err(e) => err_json(&e),
                }
            }
            "delete_offset" => {
                let consumer = Self::consumer_of(op);
                let part = op.get("partition").and_then(|v| v.as_u64()).map(|v| v as u32);
                unit!(c.delete_consumer_offset(&consumer, &stream, &topic, part).await)
            }
            "get_topic" => match c.get_topic(&stream, &topic).await {
                Ok(Some(t)) => {
                    let parts: Vec<Value> = t
                        .partitions
                        .iter()
                        .map(|p| json!({"id": p.id, "segs": p.segments_count, "cur": p.current_offset, "size": p.size.as_bytes_u64(), "msgs": p.messages_count}))
                        .collect();
                    json!({"r": "ok", "some": true, "id": t.id, "name": t.name, "size": t.size.as_bytes_u64(), "msgs": t.messages_count,
                        "parts_count": t.partitions_count, "parts": parts, "expiry": format!("{}", t.message_expiry), "max_size": format!("{}", t.max_topic_size)})
                }
                Ok(None) => json!({"r": "ok", "some": false}),
                Err(e) => err_json(&e),
            },
            "get_topics" => match c.get_topics(&stream).await {
                Ok(ts) => {
                    let mut l: Vec<Value> = ts.iter().map(|t| json!({"id": t.id, "name": t.name, "size": t.size.as_bytes_u64(), "msgs": t.messages_count, "parts": t.partitions_count})).collect();
                    l.sort_by_key(|v| v["id"].as_u64());
                    json!({"r": "ok", "topics": l})
                }
                Err(e) => err_json(&e),
            },
            "get_stream" => match c.get_stream(&stream).await {
                Ok(Some(d)) => {
                    let mut l: Vec<Value> = d.topics.iter().map(|t| json!({"id": t.id, "name": t.name, "size": t.size.as_bytes_u64(), "msgs": t.messages_count, "parts": t.partitions_count})).collect();
                    l.sort_by_key(|v| v["id"].as_u64());
                    json!({"r": "ok", "some": true, "id": d.id, "name": d.name, "size": d.size.as_bytes_u64(), "msgs": d.messages_count, "topics_count": d.topics_count, "topics": l})
                }
                Ok(None) => json!({"r": "ok", "some": false}),
                Err(e) => err_json(&e),
            },
            "get_streams" => match c.get_streams().await {
                Ok(ss) => {
                    let mut l: Vec<Value> = ss.iter().map(|d| json!({"id": d.id, "name": d.name, "size": d.size.as_bytes_u64(), "msgs": d.messages_count, "topics": d.topics_count})).collect();
                    l.sort_by_key(|v| v["id"].as_u64());
                    json!({"r": "ok", "streams": l})
                }
                Err(e) => err_json(&e),
            },
            "catalog" => {
                // full catalogue through the public API: streams -> topics -> (partitions, groups), users
                let mut streams_out = vec![];
                match c.get_streams().await {
                    Err(e) => return err_json(&e),
                    Ok(ss) => {
                        let mut ids: Vec<u32> = ss.iter().map(|x| x.id).collect();
                        ids.sort();
                        for sid in ids {
                            let sident = Identifier::numeric(sid).unwrap();
                            let Ok(Some(sd)) = c.get_stream(&sident).await else { return json!({"r": "err", "name": format!("get_stream {sid} failed")}) };
                            let mut tids: Vec<u32> = sd.topics.iter().map(|t| t.id).collect();
                            tids.sort();
                            let mut topics_out = vec![];
                            for tid in tids {
                                let tident = Identifier::numeric(tid).unwrap();
                                let Ok(Some(td)) = c.get_topic(&sident, &tident).await else { return json!({"r": "err", "name": format!("get_topic {sid}/{tid} failed")}) };
                                let groups = match c.get_consumer_groups(&sident, &tident).await {
                                    Ok(g) => { let mut v: Vec<(u32, String)> = g.iter().map(|x| (x.id, x.name.clone())).collect(); v.sort(); v }
                                    Err(e) => return err_json(&e),
                                };
                                // what every listed group says about the topic's partitions (group listing and group details)
                                let mut group_parts: Vec<(u32, u32, u32)> = vec![];
                                if let Ok(gl) = c.get_consumer_groups(&sident, &tident).await {
                                    for x in gl.iter() {
                                        let detail = c.get_consumer_group(&sident, &tident, &Identifier::numeric(x.id).unwrap()).await.ok().flatten().map(|d| d.partitions_count).unwrap_or(u32::MAX);
                                        group_parts.push((x.id, x.partitions_count, detail));
                                    }
                                }
                                group_parts.sort();
                                let mut pids: Vec<u32> = td.partitions.iter().map(|p| p.id).collect();
                                pids.sort();
                                let by_name = c.get_topic(&sident, &Identifier::named(&td.name).unwrap()).await.ok().flatten().map(|x| x.id);
                                topics_out.push(json!({"id": td.id, "name": td.name, "parts": pids, "parts_count": td.partitions_count, "groups": groups, "group_parts": group_parts,
                                    "msgs": td.messages_count, "by_name": by_name, "expiry": format!("{}", td.message_expiry), "max_size": format!("{}", td.max_topic_size)}));
                            }
                            let by_name = c.get_stream(&Identifier::named(&sd.name).unwrap()).await.ok().flatten().map(|x| x.id);
                            streams_out.push(json!({"id": sd.id, "name": sd.name, "topics": topics_out, "topics_count": sd.topics_count, "by_name": by_name}));
                        }
                    }
                }
                let users = match c.get_users().await {
                    Ok(l) => { let mut v: Vec<Value> = l.iter().map(|d| json!({"id": d.id, "name": d.username, "active": d.status == UserStatus::Active})).collect(); v.sort_by_key(|x| x["id"].as_u64()); v }
                    Err(e) => return err_json(&e),
                };
                json!({"r": "ok", "streams": streams_out, "users": users})
            }
            "audit" => {
                // every reported figure through the public API, next to what is actually stored (full polls, segment files)
                let stats = match c.get_stats().await {
                    Ok(st) => json!({"streams": st.streams_count, "topics": st.topics_count, "partitions": st.partitions_count, "segments": st.segments_count,
                        "messages": st.messages_count, "size": st.messages_size_bytes.as_bytes_u64(), "groups": st.consumer_groups_count}),
                    Err(e) => return err_json(&e),
                };
                let list = match c.get_streams().await { Ok(l) => l, Err(e) => return err_json(&e) };
                let mut streams_out = vec![];
                let mut listed: Vec<Value> = list.iter().map(|d| json!({"id": d.id, "size": d.size.as_bytes_u64(), "msgs": d.messages_count, "topics": d.topics_count})).collect();
                listed.sort_by_key(|v| v["id"].as_u64());
                let mut sids: Vec<u32> = list.iter().map(|x| x.id).collect();
                sids.sort();
                for sid in sids {
                    let sident = Identifier::numeric(sid).unwrap();
                    let Ok(Some(sd)) = c.get_stream(&sident).await else { return json!({"r": "err", "name": format!("get_stream {sid} failed")}) };
                    let mut in_stream: Vec<Value> = sd.topics.iter().map(|t| json!({"id": t.id, "size": t.size.as_bytes_u64(), "msgs": t.messages_count, "parts": t.partitions_count})).collect();
                    in_stream.sort_by_key(|v| v["id"].as_u64());
                    let mut tids: Vec<u32> = sd.topics.iter().map(|t| t.id).collect();
                    tids.sort();
                    let mut topics_out = vec![];
                    for tid in tids {
                        let tident = Identifier::numeric(tid).unwrap();
                        let Ok(Some(td)) = c.get_topic(&sident, &tident).await else { return json!({"r": "err", "name": format!("get_topic {sid}/{tid} failed")}) };
                        let groups = match c.get_consumer_groups(&sident, &tident).await { Ok(g) => g.len(), Err(e) => return err_json(&e) };
                        let mut parts_out = vec![];
                        for pd in td.partitions.iter() {
                            let polled = match c.poll_messages(&sident, &tident, Some(pd.id), &Consumer::new(Identifier::numeric(4_000_000).unwrap()), &PollingStrategy::offset(0), 1_000_000, false).await {
                                Ok(pm) => json!(pm.messages.len()),
                                Err(e) => err_json(&e),
                            };
                            let wb = Self::dump_partition_of(&shared_wb, &json!(sid), &json!(tid), pd.id).await;
                            let (mut wb_segs, mut log_bytes, mut unsaved) = (0u64, 0u64, 0u64);
                            if let Some(segs) = wb["segs"].as_array() {
                                wb_segs = segs.len() as u64;
                                for sg in segs {
                                    let l = sg["log_len"].as_u64().unwrap_or(0);
                                    if l != u64::MAX { log_bytes += l; }
                                    if let Some(a) = sg["acc"].as_array() { unsaved += a[2].as_u64().unwrap_or(0); }
                                }
                            }
                            parts_out.push(json!({"id": pd.id, "segs": pd.segments_count, "cur": pd.current_offset, "size": pd.size.as_bytes_u64(), "msgs": pd.messages_count,
                                "polled": polled, "wb_segs": wb_segs, "log_bytes": log_bytes, "unsaved": unsaved}));
                        }
                        parts_out.sort_by_key(|v| v["id"].as_u64());
                        topics_out.push(json!({"id": td.id, "size": td.size.as_bytes_u64(), "msgs": td.messages_count, "parts_count": td.partitions_count, "groups": groups, "parts": parts_out}));
                    }
                    streams_out.push(json!({"id": sd.id, "size": sd.size.as_bytes_u64(), "msgs": sd.messages_count, "topics_count": sd.topics_count, "in_stream": in_stream, "topics": topics_out}));
                }
                json!({"r": "ok", "stats": stats, "listed": listed, "streams": streams_out})
            }
            "get_stats" => match c.get_stats().await {
                Ok(st) => json!({"r": "ok", "streams": st.streams_count, "topics": st.topics_count, "partitions": st.partitions_count, "segments": st.segments_count,
                    "messages": st.messages_count, "size": st.messages_size_bytes.as_bytes_u64(), "groups": st.consumer_groups_count, "clients": st.clients_count}),
                Err(e) => err_json(&e),
            },
            "snapshot" => match c
                .snapshot(iggy::snapshot::SnapshotCompression::Deflated, vec![iggy::snapshot::SystemSnapshotType::Test])
                .await
            {
                Ok(sn) => json!({"r": "ok", "len": sn.0.len()}),
                Err(e) => err_json(&e),
            },
            "get_me" => match c.get_me().await {
                Ok(m) => json!({"r": "ok", "uid": m.user_id, "client_id": m.client_id, "groups": m.consumer_groups_count}),
                Err(e) => err_json(&e),
            },
            "get_clients" => match c.get_clients().await {
                Ok(l) => json!({"r": "ok", "n": l.len()}),
                Err(e) => err_json(&e),
            },
            "get_client" => match c.get_client(u(op, "id") as u32).await {
                Ok(x) => json!({"r": "ok", "some": x.is_some()}),
                Err(e) => err_json(&e),
            },
            // ---------------- users
            "create_user" => {
                let perms: Option<Permissions> = op.get("perms").filter(|v| !v.is_null()).map(|v| crate::perm::perms_from_json(v));
                let status = if op.get("inactive").and_then(|v| v.as_bool()).unwrap_or(false) { UserStatus::Inactive } else { UserStatus::Active };
                match c.create_user(s(op, "user"), s(op, "password"), status, perms).await {
                    Ok(d) => json!({"r": "ok", "id": d.id}),
                    Err(e) => err_json(&e),
                }
            }
            "delete_user" => unit!(c.delete_user(&ident(&op["uid"])).await),
            "update_user" => {
                let status = op.get("inactive").and_then(|v| v.as_bool()).map(|b| if b { UserStatus::Inactive } else { UserStatus::Active });
                unit!(c.update_user(&ident(&op["uid"]), op.get("name").and_then(|v| v.as_str()), status).await)
            }
            "update_permissions" => {
                let perms: Option<Permissions> = op.get("perms").filter(|v| !v.is_null()).map(|v| crate::perm::perms_from_json(v));
                unit!(c.update_permissions(&ident(&op["uid"]), perms).await)
            }
            "change_password" => unit!(c.change_password(&ident(&op["uid"]), s(op, "current"), s(op, "new")).await),
            "get_user" => match c.get_user(&ident(&op["uid"])).await {
                Ok(Some(d)) => json!({"r": "ok", "some": true, "id": d.id, "name": d.username, "active": d.status == UserStatus::Active, "perms": d.permissions.is_some(),
                    "perms_full": serde_json::to_value(&d.permissions).unwrap_or(Value::Null)}),
                Ok(None) => json!({"r": "ok", "some": false}),
                Err(e) => err_json(&e),
            },
            "get_users" => match c.get_users().await {
                Ok(l) => {
                    let mut v: Vec<Value> = l.iter().map(|d| json!({"id": d.id, "name": d.username, "active": d.status == UserStatus::Active})).collect();
                    v.sort_by_key(|x| x["id"].as_u64());
                    json!({"r": "ok", "users": v})
                }
                Err(e) => err_json(&e),
            },
            "create_pat" => {
                let exp = match op.get("expiry_us").and_then(|v| v.as_u64()) {
                    Some(us) => IggyExpiry::ExpireDuration(IggyDuration::from(us)),
                    None => IggyExpiry::NeverExpire,
                };
                match c.create_personal_access_token(s(op, "name"), exp).await {
                    Ok(t) => {
                        let key = op.get("store_as").and_then(|v| v.as_str()).unwrap_or(s(op, "name")).to_string();
                        self.tokens.insert(key, t.token.clone());
                        json!({"r": "ok", "token": t.token})
                    }
                    Err(e) => err_json(&e),
                }
            }
            "delete_pat" => unit!(c.delete_personal_access_token(s(op, "name")).await),
            "get_pats" => match c.get_personal_access_tokens().await {
                Ok(l) => {
                    let mut v: Vec<String> = l.iter().map(|t| t.name.clone()).collect();
                    v.sort();
                    json!({"r": "ok", "names": v})
                }
                Err(e) => err_json(&e),
            },
            "login_pat" => {
                let tok = match op.get("token").and_then(|v| v.as_str()) {
                    Some(t) => t.to_string(),
                    None => tokens.get(s(op, "name")).cloned().unwrap_or_else(|| "missing".to_string()),
                };
                match c.login_with_personal_access_token(&tok).await {
                    Ok(i) => json!({"r": "ok", "uid": i.user_id}),
                    Err(e) => err_json(&e),
                }
            }
            // ---------------- consumer groups
            "create_group" => match c.create_consumer_group(&stream, &topic, s(op, "name"), op.get("id").and_then(|v| v.as_u64()).map(|v| v as u32)).await {
                Ok(d) => json!({"r": "ok", "id": d.id}),
                Err(e) => err_json(&e),
            },
            "delete_group" => unit!(c.delete_consumer_group(&stream, &topic, &ident(&op["group"])).await),
            "join_group" => unit!(c.join_consumer_group(&stream, &topic, &ident(&op["group"])).await),
            "leave_group" => unit!(c.leave_consumer_group(&stream, &topic, &ident(&op["group"])).await),
            "get_group" => match c.get_consumer_group(&stream, &topic, &ident(&op["group"])).await {
                Ok(Some(g)) => {
                    let mut members: Vec<Value> = g.members.iter().map(|m| { let mut p = m.partitions.clone(); p.sort(); json!({"id": m.id, "parts": p}) }).collect();
                    members.sort_by_key(|m| m["id"].as_u64());
                    json!({"r": "ok", "some": true, "id": g.id, "name": g.name, "parts": g.partitions_count, "members_count": g.members_count, "members": members})
                }
                Ok(None) => json!({"r": "ok", "some": false}),
                Err(e) => err_json(&e),
            },
            "get_groups" => match c.get_consumer_groups(&stream, &topic).await {
                Ok(l) => {
                    let mut v: Vec<Value> = l.iter().map(|g| json!({"id": g.id, "name": g.name, "parts": g.partitions_count, "members": g.members_count})).collect();
                    v.sort_by_key(|x| x["id"].as_u64());
                    json!({"r": "ok", "groups": v})
                }
                Err(e) => err_json(&e),
            },
            other => json!({"r": "err", "name": format!("unknown_op_{other}")}),
        }
    }
}

pub async fn run_trace(t: &Value, dir: &Path) -> Value {
    let _ = std::fs::remove_dir_all(dir);
    std::fs::create_dir_all(dir).unwrap();
    verif_clock::set(T0);
    let mut srv = match Srv::start(dir, &t["cfg"]).await {
        Ok(s) => s,
        Err(e) => return json!({"id": t["id"], "outs": [], "init_err": e.as_string()}),
    };
    let mut outs = vec![];
    for op in t["ops"].as_array().unwrap() {
        let o = srv.exec(op).await;
        let fatal = s(op, "op") == "restart" && o["r"] != "ok" && !op.get("go_on").and_then(|v| v.as_bool()).unwrap_or(false);
        outs.push(o);
        if fatal {
            break;
        }
    }
    for (_, c) in srv.clients.drain() {
        let _ = c.disconnect().await;
    }
    json!({"id": t["id"], "outs": outs})
}

pub async fn main() {
    let dir = scratch_dir("srv");
    for (i, t) in read_traces().iter().enumerate() {
        let r = run_trace(t, &dir.join(format!("d{}", i % 4))).await;
        println!("{}", r);
    }
    let _ = std::fs::remove_dir_all(&dir);
}

fn hexs(b: &[u8]) -> String {
    b.iter().map(|x| format!("{:02x}", x)).collect()
}

fn unhex(s: &str) -> Vec<u8> {
    (0..s.len() / 2).map(|i| u8::from_str_radix(&s[2 * i..2 * i + 2], 16).unwrap()).collect()
}
