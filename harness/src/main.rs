//! `vh` - verification harness: runs the real iggy code (built from /repo's working tree) on
//! traces given as JSON lines on stdin and prints one JSON observation line per trace.
mod client;
mod common;
mod journal;
mod perm;
mod route;
mod srv;
mod stress;
mod wire;

fn main() {
    let mode = std::env::args().nth(1).unwrap_or_default();
    let rt = tokio::runtime::Builder::new_multi_thread()
        .worker_threads(4)
        .enable_all()
        .build()
        .unwrap();
    match mode.as_str() {
        "route" => rt.block_on(route::main()),
        "hash" => route::hash_main(),
        "perm" => perm::main(),
        "srv" => rt.block_on(srv::main()),
        "journal-make" => rt.block_on(journal::make()),
        "journal-load" => journal::load(&rt),
        "wire" => wire::main(),
        "journal-race" => rt.block_on(journal::race()),
        _ => {
            eprintln!("usage: vh <mode>");
            std::process::exit(2);
        }
    }
}
