//! `vh` - verification harness: runs the real iggy code (built from /repo's working tree) on
//! traces given as JSON lines on stdin and prints one JSON observation line per trace.
mod common;
mod perm;
mod route;
mod srv;

fn main() {
    let mode = std::env::args().nth(1).unwrap_or_default();
    let rt = tokio::runtime::Builder::new_multi_thread()
        .worker_threads(2)
        .enable_all()
        .build()
        .unwrap();
    match mode.as_str() {
        "route" => rt.block_on(route::main()),
        "hash" => route::hash_main(),
        "perm" => perm::main(),
        "srv" => rt.block_on(srv::main()),
        _ => {
            eprintln!("usage: vh <mode>");
            std::process::exit(2);
        }
    }
}
