//! High-level SDK objects (C20): the real `IggyProducer` and `IggyConsumer` built from the real `IggyClient` over the real
//! TCP connection to the in-process server.
use crate::common::*;
use crate::srv::{err_json, ident, payload_for};
use bytes::Bytes;
use futures_util::StreamExt;
use iggy::client::{Client, ConsumerOffsetClient, TopicClient, UserClient};
use iggy::clients::client::IggyClient;
use iggy::clients::consumer::{AutoCommit, AutoCommitAfter, AutoCommitWhen, IggyConsumer, ReceivedMessage};
use iggy::consumer_ext::{IggyConsumerMessageExt, MessageConsumer};
use iggy::error::IggyError;
use iggy::identifier::Identifier;
use iggy::messages::poll_messages::PollingStrategy;
use iggy::messages::send_messages::{Message, Partitioning};
use iggy::partitioner::Partitioner;
use iggy::utils::duration::IggyDuration;
use serde_json::{json, Value};
use std::sync::atomic::{AtomicU64, Ordering};
use std::sync::{Arc, Mutex};
use std::time::Duration;

fn partitioning_of(p: &Value) -> Option<Partitioning> {
    if p.is_null() {
        return None;
    }
    Some(match s(p, "kind") {
        "balanced" => Partitioning::balanced(),
        "key" => {
            let key: Vec<u8> = p["key"].as_array().unwrap().iter().map(|x| x.as_u64().unwrap() as u8).collect();
            Partitioning::messages_key(&key).unwrap()
        }
        _ => Partitioning::partition_id(u(p, "id") as u32),
    })
}

fn messages_of(ids: &Value) -> Vec<Message> {
    ids.as_array()
        .unwrap()
        .iter()
        .map(|i| {
            let id = i.as_u64().unwrap();
            Message::new(Some(id as u128), Bytes::from(payload_for(id, 8 + (id % 5) as usize)), None)
        })
        .collect()
}

/// A custom partitioner: partition = (id of the first message mod n) + 1; records what it was asked about.
#[derive(Debug)]
struct ModPartitioner {
    n: u32,
    asked: Mutex<Vec<(String, String)>>,
}
impl Partitioner for ModPartitioner {
    fn calculate_partition_id(&self, stream_id: &Identifier, topic_id: &Identifier, messages: &[Message]) -> Result<u32, IggyError> {
        self.asked.lock().unwrap().push((stream_id.to_string(), topic_id.to_string()));
        Ok((messages[0].id % self.n as u128) as u32 + 1)
    }
}

/// {"op":"produce","stream","topic","batch":n (0 = none),"interval_us":null|n,"part":null|{..},"partitioner":null|n,
///  "calls":[{"entry":"send"|"send_one"|"send_with_partitioning"|"send_to","ids":[..],"part":null|{..},"to_stream","to_topic"}]}
pub async fn produce(c: &IggyClient, op: &Value) -> Value {
    let stream = s(op, "stream");
    let topic = s(op, "topic");
    let mut b = match c.producer(stream, topic) {
        Ok(b) => b,
        Err(e) => return err_json(&e),
    };
    b = b.do_not_create_stream_if_not_exists().do_not_create_topic_if_not_exists().send_retries(None, None);
    let batch = u(op, "batch") as u32;
    b = if batch == 0 { b.without_batch_size() } else { b.batch_size(batch) };
    b = match op.get("interval_us").and_then(|v| v.as_u64()) {
        Some(us) => b.send_interval(IggyDuration::from(us)),
        None => b.without_send_interval(),
    };
    if let Some(p) = partitioning_of(&op["part"]) {
        b = b.partitioning(p);
    }
    let partitioner = op.get("partitioner").and_then(|v| v.as_u64()).map(|n| Arc::new(ModPartitioner { n: n as u32, asked: Mutex::new(vec![]) }));
    if let Some(p) = &partitioner {
        b = b.partitioner(p.clone());
    }
    let mut producer = b.build();
    if let Err(e) = producer.init().await {
        return err_json(&e);
    }
    let mut outs = vec![];
    for call in op["calls"].as_array().unwrap() {
        let msgs = messages_of(&call["ids"]);
        let part = partitioning_of(&call["part"]).map(Arc::new);
        let r = match s(call, "entry") {
            "send" => producer.send(msgs).await,
            "send_one" => {
                let mut r = Ok(());
                for m in msgs {
                    r = producer.send_one(m).await;
                    if r.is_err() {
                        break;
                    }
                }
                r
            }
            "send_with_partitioning" => producer.send_with_partitioning(msgs, part).await,
            _ => producer.send_to(Arc::new(ident(&call["to_stream"])), Arc::new(ident(&call["to_topic"])), msgs, part).await,
        };
        outs.push(match r {
            Ok(()) => json!({"r": "ok"}),
            Err(e) => err_json(&e),
        });
    }
    let asked = partitioner.map(|p| p.asked.lock().unwrap().clone()).unwrap_or_default();
    json!({"r": "ok", "calls": outs, "asked": asked})
}

fn auto_commit_of(v: &Value) -> AutoCommit {
    let iv = v.get("interval_ms").and_then(|x| x.as_u64()).map(|ms| IggyDuration::from(ms * 1000));
    let n = v.get("n").and_then(|x| x.as_u64()).unwrap_or(1) as u32;
    let when = |k: &str| match k {
        "polling" => AutoCommitWhen::PollingMessages,
        "all" => AutoCommitWhen::ConsumingAllMessages,
        "each" => AutoCommitWhen::ConsumingEachMessage,
        _ => AutoCommitWhen::ConsumingEveryNthMessage(n),
    };
    let after = |k: &str| match k {
        "after_all" => AutoCommitAfter::ConsumingAllMessages,
        "after_each" => AutoCommitAfter::ConsumingEachMessage,
        _ => AutoCommitAfter::ConsumingEveryNthMessage(n),
    };
    let kind = s(v, "kind");
    match (kind, iv) {
        ("disabled", _) => AutoCommit::Disabled,
        ("interval", Some(i)) => AutoCommit::Interval(i),
        ("polling" | "all" | "each" | "nth", None) => AutoCommit::When(when(kind)),
        ("polling" | "all" | "each" | "nth", Some(i)) => AutoCommit::IntervalOrWhen(i, when(kind)),
        (_, None) => AutoCommit::After(after(kind)),
        (_, Some(i)) => AutoCommit::IntervalOrAfter(i, after(kind)),
    }
}

fn yielded_json(m: &ReceivedMessage) -> Value {
    let id = m.message.id as u64;
    let pok = m.message.payload.as_ref() == payload_for(id, m.message.payload.len()).as_slice();
    json!([m.partition_id, m.message.offset, id, pok, m.current_offset])
}

struct Sink {
    got: Mutex<Vec<Value>>,
    count: AtomicU64,
}
impl MessageConsumer for Sink {
    async fn consume(&self, message: ReceivedMessage) -> Result<(), IggyError> {
        self.got.lock().unwrap().push(yielded_json(&message));
        self.count.fetch_add(1, Ordering::SeqCst);
        Ok(())
    }
}

fn build_consumer(c: &IggyClient, op: &Value) -> Result<IggyConsumer, IggyError> {
    let name = s(op, "name");
    let stream = s(op, "stream");
    let topic = s(op, "topic");
    let mut b = match op.get("partition").and_then(|v| v.as_u64()) {
        Some(p) => c.consumer(name, stream, topic, p as u32)?,
        None => c.consumer_group(name, stream, topic)?,
    };
    let st = &op["strategy"];
    b = b
        .polling_strategy(match s(st, "kind") {
            "offset" => PollingStrategy::offset(u(st, "value")),
            "first" => PollingStrategy::first(),
            "last" => PollingStrategy::last(),
            "timestamp" => PollingStrategy::timestamp(u(st, "value").into()),
            _ => PollingStrategy::next(),
        })
        .batch_size(u(op, "batch") as u32)
        .auto_commit(auto_commit_of(&op["commit"]))
        .polling_retry_interval(IggyDuration::from(10_000));
    b = match op.get("poll_interval_us").and_then(|v| v.as_u64()) {
        Some(us) => b.poll_interval(IggyDuration::from(us)),
        None => b.without_poll_interval(),
    };
    Ok(b.build())
}

/// {"op":"consume","name","stream","topic","partition":n|null (null = consumer group `name`),"strategy":{kind,value},"batch",
///  "commit":{kind,interval_ms,n},"take":n,"idle_ms":n,"via":"stream"|"ext","manual":bool,"linger_ms":n}
/// Yields at most `take` messages, or stops after `idle_ms` without a message; the consumer object is then kept alive for
/// `linger_ms` (interval commits), dropped, and the background store queue is given `settle_ms` to drain.
pub async fn consume(c: &IggyClient, addr: std::net::SocketAddr, op: &Value) -> Value {
    let mut consumer = match build_consumer(c, op) {
        Ok(x) => x,
        Err(e) => return err_json(&e),
    };
    if let Err(e) = consumer.init().await {
        return err_json(&e);
    }
    let take = u(op, "take");
    let idle = Duration::from_millis(op.get("idle_ms").and_then(|v| v.as_u64()).unwrap_or(150));
    let linger = Duration::from_millis(op.get("linger_ms").and_then(|v| v.as_u64()).unwrap_or(0));
    let settle = Duration::from_millis(op.get("settle_ms").and_then(|v| v.as_u64()).unwrap_or(60));
    let manual = op.get("manual").and_then(|v| v.as_bool()).unwrap_or(false);
    let mut got: Vec<Value> = vec![];
    let mut errs: Vec<Value> = vec![];
    let ended;
    if s(op, "via") == "ext" {
        let sink: &'static Sink = Box::leak(Box::new(Sink { got: Mutex::new(vec![]), count: AtomicU64::new(0) }));
        let (tx, rx) = tokio::sync::oneshot::channel();
        let h = tokio::spawn(async move { consumer.consume_messages(sink, rx).await });
        let mut last = 0;
        let mut last_change = std::time::Instant::now();
        loop {
            tokio::time::sleep(Duration::from_millis(2)).await;
            let n = sink.count.load(Ordering::SeqCst);
            if n >= take {
                ended = "take";
                break;
            }
            if n != last {
                last = n;
                last_change = std::time::Instant::now();
            } else if last_change.elapsed() >= idle {
                ended = "idle";
                break;
            }
        }
        tokio::time::sleep(linger).await;
        let _ = tx.send(());
        if let Ok(Err(e)) = h.await {
            errs.push(err_json(&e));
        }
        got = sink.got.lock().unwrap().clone();
    } else {
        loop {
            if got.len() as u64 >= take {
                ended = "take";
                break;
            }
            match tokio::time::timeout(idle, consumer.next()).await {
                Err(_) => {
                    ended = "idle";
                    break;
                }
                Ok(None) => {
                    ended = "end";
                    break;
                }
                Ok(Some(Err(e))) => {
                    errs.push(err_json(&e));
                    if errs.len() > 3 {
                        ended = "errors";
                        break;
                    }
                }
                Ok(Some(Ok(m))) => {
                    got.push(yielded_json(&m));
                    if manual {
                        if let Err(e) = consumer.store_offset(m.message.offset, Some(m.partition_id)).await {
                            errs.push(err_json(&e));
                        }
                    }
                }
            }
        }
        tokio::time::sleep(linger).await;
        drop(consumer);
    }
    // the dropped consumer's store channel drains in the background: wait until the committed offsets stand still
    tokio::time::sleep(settle).await;
    let consumer = match op.get("partition").and_then(|v| v.as_u64()) {
        Some(_) => iggy::consumer::Consumer::new(s(op, "name").try_into().unwrap()),
        None => iggy::consumer::Consumer::group(s(op, "name").try_into().unwrap()),
    };
    let stream: Identifier = s(op, "stream").try_into().unwrap();
    let topic: Identifier = s(op, "topic").try_into().unwrap();
    // (asked over a connection of its own: the consumer's connection may hold the unread answer of a cancelled poll)
    let obs = IggyClient::builder().with_tcp().with_server_address(addr.to_string()).build().unwrap();
    obs.connect().await.unwrap();
    obs.login_user("iggy", "iggy").await.unwrap();
    let parts = match obs.get_topic(&stream, &topic).await {
        Ok(Some(t)) => t.partitions_count,
        _ => 0,
    };
    let mut last: Option<Vec<Option<u64>>> = None;
    let mut stable = 0;
    let started = std::time::Instant::now();
    while stable < 3 && started.elapsed() < Duration::from_secs(5) {
        let mut snap = vec![];
        for p in 1..=parts {
            snap.push(obs.get_consumer_offset(&consumer, &stream, &topic, Some(p)).await.ok().flatten().map(|o| o.stored_offset));
        }
        if last.as_ref() == Some(&snap) {
            stable += 1;
        } else {
            stable = 0;
            last = Some(snap);
        }
        tokio::time::sleep(Duration::from_millis(40)).await;
    }
    let _ = obs.disconnect().await;
    json!({"r": "ok", "yielded": got, "ended": ended, "errs": errs})
}
