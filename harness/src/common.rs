use serde_json::Value;
use std::io::BufRead;

/// Reads stdin: every line is a JSON document describing one trace.
pub fn read_traces() -> Vec<Value> {
    let stdin = std::io::stdin();
    let mut out = vec![];
    for line in stdin.lock().lines() {
        let line = line.unwrap();
        if line.trim().is_empty() {
            continue;
        }
        out.push(serde_json::from_str(&line).expect("bad json line"));
    }
    out
}

pub fn scratch_dir(tag: &str) -> std::path::PathBuf {
    let base = std::env::var("VH_SCRATCH").unwrap_or_else(|_| "/dev/shm".to_string());
    let d = std::path::PathBuf::from(base).join(format!("vh_{}_{}", tag, std::process::id()));
    let _ = std::fs::remove_dir_all(&d);
    std::fs::create_dir_all(&d).unwrap();
    d
}

pub fn u(v: &Value, k: &str) -> u64 {
    v.get(k).and_then(|x| x.as_u64()).unwrap_or(0)
}

pub fn s<'a>(v: &'a Value, k: &str) -> &'a str {
    v.get(k).and_then(|x| x.as_str()).unwrap_or("")
}
